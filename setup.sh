#!/bin/sh
# Build the overlay venv used by every check: /venv's site-packages + z3-solver + crosshair-tool
# installed offline from the wheelhouse. Idempotent; safe to call concurrently (lock dir).
set -e
HERE=$(cd "$(dirname "$0")" && pwd)
V=$HERE/.venv
LOCK=$HERE/.venv.lock
if [ -x "$V/bin/python" ] && "$V/bin/python" -c "import z3, crosshair, netqasm" 2>/dev/null; then
  exit 0
fi
# serialise concurrent builders
i=0
while ! mkdir "$LOCK" 2>/dev/null; do
  i=$((i+1)); [ $i -gt 600 ] && { echo "setup lock timeout" >&2; exit 3; }
  sleep 0.5
  if [ -x "$V/bin/python" ] && "$V/bin/python" -c "import z3, crosshair, netqasm" 2>/dev/null; then exit 0; fi
done
trap 'rmdir "$LOCK" 2>/dev/null || true' EXIT
if [ -x "$V/bin/python" ] && "$V/bin/python" -c "import z3, crosshair, netqasm" 2>/dev/null; then exit 0; fi
rm -rf "$V"
/venv/bin/python -m venv "$V"
SP="$V/lib/python3.12/site-packages"
printf '%s\n' "import site; site.addsitedir('/venv/lib/python3.12/site-packages')" > "$SP/zz_base.pth"
PIP_NO_INDEX=1 "$V/bin/pip" install -q --no-index --find-links /opt/veriftools/wheels z3-solver crosshair-tool >/dev/null
"$V/bin/python" -c "import z3, crosshair, netqasm; print('verif venv ok', z3.get_version_string())"
