"""Host-program DSL of C05/C06/C14: a program is a JSON-able list of statements that is interpreted
twice -- by calling the real SDK (SdkInterp) and by direct evaluation over the same symbolic values
(RefInterp, the oracle).  See DESIGN.md appendix E.

stmt ::= ["arr", name, init]                     init: list of "k" (fresh symbol) | "s" (one shared symbol) | None
       | ["reg", name]                             conn.builder.new_register(sym)
       | ["add", tgt, src, mod]                    tgt/src: handle; src may be ["k"]; mod: None | ["k"] (>= 1)
       | ["if", cond, a, b, form, body]            cond in eq ne lt ge ez nz; form "ctx" | "cb"
       | ["loop", stop, form, body[, start[, step]]]   form "ctx" | "body";  index available as ["ix"]
       | ["foreach", arr, body] | ["enum", arr, body]     element ["elt"], index ["ix"]
       | ["until", maxit, body, handle, ["k"]]     loop_until + ValueAtMostConstraint(handle, k)
       | ["q", qname] | ["g", qname, gate] | ["m", qname, dest, inplace] | ["rot", qname, axis, n, d]
       | ["flush"]
handle ::= ["f", arr, i] | ["r", name] | ["elt"] | ["ix"] | ["k"]      i: int | ["ix"]
dest   ::= ["f", arr, i] | ["newf", name] | ["newr", name]
"""
from typing import Any, Dict, List

from .refsem import Unspecified
from .symx import PathAbort, SymInt, cur

GATES = {"X": "x", "Y": "y", "Z": "z", "H": "h", "K": "k", "S": "s", "T": "t"}


# ----------------------------------------------------------------------------- binding of symbols

def bind(prog, inp, prefix="k"):
    """replace every ["k"] / "k" / "s" leaf by ["k", value] with a fresh symbolic integer (stable names)"""
    counter = [0]

    def fresh(tag, lo=None, hi=None):
        counter[0] += 1
        return inp.int(f"{prefix}{counter[0]}_{tag}", lo, hi)

    def b(node, role="v"):
        if isinstance(node, list):
            if node and node[0] == "k" and len(node) == 1:
                return ["k", fresh(role, 1 if role == "mod" else None)]
            if node and node[0] == "arr":
                shared = None
                vals = []
                for x in node[2]:
                    if x == "k":
                        vals.append(fresh("init"))
                    elif x == "s":
                        if shared is None:
                            shared = fresh("same")
                        vals.append(shared)
                    else:
                        vals.append(None)
                return ["arr", node[1], vals]
            if node and node[0] == "reg":
                return ["reg", node[1], fresh("reg")]
            if node and node[0] == "add":
                return ["add", b(node[1]), b(node[2]), b(node[3], "mod") if node[3] is not None else None]
            if node and node[0] == "rot":
                n = fresh("n", 0, 255) if node[3] == "k" else node[3]
                return ["rot", node[1], node[2], n, node[4]]
            if node and node[0] == "tpl":
                return node
            return [b(x, role) for x in node]
        return node

    return b(prog)


# ----------------------------------------------------------------------------- reference evaluation

class RefInterp:
    def __init__(self, outcomes):
        self.arrays: Dict[str, List[Any]] = {}
        self.regs: Dict[str, Any] = {}
        self.events: List[tuple] = []
        self.outcomes = list(outcomes)
        self.alive: Dict[str, bool] = {}
        self.newcount = 0
        self.tvals: Dict[str, Any] = {}

    def val(self, h, scope):
        k = h[0]
        if k == "k":
            return h[1]
        if k == "f":
            arr = self.arrays[h[1]]
            i = self._pin(self.idx(h[2], scope), len(arr))
            if not (0 <= i < len(arr)):
                raise Unspecified("index out of range in host program")
            v = arr[i]
        elif k == "r":
            v = self.regs[h[1]]
        elif k == "elt":
            v = self.arrays[scope["arr"]][scope["ix"]]
        elif k == "ix":
            v = scope["ix"]
        else:
            raise ValueError(h)
        if v is None:
            raise Unspecified("host program reads an undefined value")
        return v

    def idx(self, i, scope):
        if not isinstance(i, list):
            return i
        if i[0] == "ix":
            return scope["ix"]
        # the index is itself a handle (an array entry or a register): its current value, taken case by case when symbolic
        return self.val(i, scope)

    def _pin(self, i, n):
        """a symbolic index: programs that index outside the array are outside the property (assumed away), the rest is taken case by case"""
        if isinstance(i, SymInt):
            import z3
            cur().assume_expr(z3.And(i.e >= 0, i.e < n))
            i = cur().concretize(i, 8)
        return i

    def store(self, h, v, scope):
        k = h[0]
        if k == "f":
            arr = self.arrays[h[1]]
            i = self._pin(self.idx(h[2], scope), len(arr))
            if not (0 <= i < len(arr)):
                raise Unspecified("index out of range in host program")
            arr[i] = v
        elif k == "r":
            self.regs[h[1]] = v
        elif k == "elt":
            self.arrays[scope["arr"]][scope["ix"]] = v
        else:
            raise Unspecified("store into a non-lvalue")

    def cond(self, c, a, b):
        return {"eq": lambda: a == b, "ne": lambda: a != b, "lt": lambda: a < b, "ge": lambda: a >= b,
                "ez": lambda: a == 0, "nz": lambda: a != 0}[c]()

    def run(self, stmts, scope=None):
        scope = scope or {}
        for st in stmts:
            self.step(st, scope)

    def step(self, st, scope):
        k = st[0]
        if k == "arr":
            self.arrays[st[1]] = list(st[2])
        elif k == "reg":
            self.regs[st[1]] = st[2]
        elif k == "add":
            a = self.val(st[1], scope)
            b = self.val(st[2], scope)
            r = a + b
            if st[3] is not None:
                m = st[3][1]
                r = r % m
            self.store(st[1], r, scope)
        elif k == "if":
            a = self.val(st[2], scope)
            b = self.val(st[3], scope) if st[3] is not None else None
            if self.cond(st[1], a, b):
                self.run(st[5], scope)
        elif k == "loop":
            start, step = (st[4] if len(st) > 4 else 0), (st[5] if len(st) > 5 else 1)
            for i in range(start, st[1], step):
                self.run(st[3], dict(scope, ix=i))
        elif k in ("foreach", "enum"):
            for i in range(len(self.arrays[st[1]])):
                self.run(st[2], dict(scope, ix=i, arr=st[1]))
        elif k == "until":
            for _ in range(st[1]):
                self.run(st[2], scope)
                if self.val(st[3], scope) <= st[4][1]:
                    break
        elif k == "q":
            self.alive[st[1]] = True
            self.events.append(("init", st[1]))
        elif k == "g":
            self.events.append((GATES[st[2]], st[1]))
        elif k in ("cnot", "cphase"):
            self.events.append((k, st[1], st[2]))
        elif k == "rot":
            n = st[3]
            if isinstance(n, list):
                n = self.tvals[n[1]]
            self.events.append(("rot_" + st[2].lower(), st[1], n, st[4]))
        elif k == "m":
            if not self.outcomes:
                raise Unspecified("outcome script exhausted")
            m = self.outcomes.pop(0)
            self.events.append(("meas", st[1]))
            dest = st[2]
            if dest[0] == "f":
                self.store(dest, m, scope)
            elif dest[0] == "newf":
                self.arrays[dest[1]] = [m]
            elif dest[0] == "newr":
                self.regs[dest[1]] = m
            if not st[3]:
                self.alive[st[1]] = False
        elif k == "flush":
            pass
        else:
            raise ValueError(st)


# ----------------------------------------------------------------------------- SDK interpretation

class SdkInterp:
    """calls the real SDK; keeps the handles the host program holds"""

    def __init__(self, conn):
        from netqasm.sdk.qubit import Qubit  # noqa
        self.conn = conn
        self.arrays: Dict[str, Any] = {}
        self.futs: Dict[tuple, Any] = {}      # persistent Future handles (name, i)
        self.regs: Dict[str, Any] = {}
        self.qubits: Dict[str, Any] = {}
        self.qids: Dict[str, int] = {}
        self.tmode = "template"          # how ["tpl", name] numerators are passed: as Template or as their value
        self.tvals: Dict[str, Any] = {}

    def h(self, h, scope):
        k = h[0]
        if k == "k":
            return h[1]
        if k == "f":
            i = h[2]
            if isinstance(i, list):
                if i[0] == "ix":
                    return self.arrays[h[1]].get_future_index(scope["ixreg"])
                return self.arrays[h[1]].get_future_index(self.h(i, scope))      # indexed by another handle
            return self.arrays[h[1]].get_future_index(i)
        if k == "r":
            return self.regs[h[1]]
        if k == "elt":
            return scope["elt"]
        if k == "ix":
            return scope["ixnat"]
        raise ValueError(h)

    def run(self, stmts, scope=None):
        scope = scope or {}
        for st in stmts:
            self.step(st, scope)

    def _new_array(self, name, arr):
        self.arrays[name] = arr
        for i in range(len(arr)):
            self.futs[(name, i)] = arr.get_future_index(i)

    def step(self, st, scope):
        from netqasm.sdk.constraint import ValueAtMostConstraint
        from netqasm.sdk.futures import RegFuture
        from netqasm.sdk.qubit import Qubit
        conn = self.conn
        k = st[0]
        if k == "arr":
            self._new_array(st[1], conn.new_array(len(st[2]), init_values=list(st[2])))
        elif k == "reg":
            self.regs[st[1]] = conn.builder.new_register(st[2])
        elif k == "add":
            tgt = self.h(st[1], scope)
            src = self.h(st[2], scope)
            if st[3] is not None:
                tgt.add(src, mod=st[3][1])
            else:
                tgt.add(src)
        elif k == "if":
            a = self.h(st[2], scope)
            b = self.h(st[3], scope) if st[3] is not None else None
            c, form, body = st[1], st[4], st[5]
            if form == "ctx":
                ctx = getattr(a, "if_" + c)(b) if b is not None or c not in ("ez", "nz") else getattr(a, "if_" + c)()
                with ctx:
                    self.run(body, scope)
            else:
                fn = getattr(conn, "if_" + c)
                if c in ("ez", "nz"):
                    fn(a, lambda _c: self.run(body, scope))
                else:
                    fn(a, b, lambda _c: self.run(body, scope))
        elif k == "loop":
            stop, form, body = st[1], st[2], st[3]
            kw = {}
            if len(st) > 4:
                kw["start"] = st[4]
            if len(st) > 5:
                kw["step"] = st[5]
            if form == "ctx":
                with conn.loop(stop, **kw) as reg:
                    self.run(body, dict(scope, ixreg=reg, ixnat=reg))
            else:
                conn.loop_body(lambda _c, rf: self.run(body, dict(scope, ixreg=rf.reg, ixnat=rf)), stop, **kw)
        elif k == "foreach":
            with self.arrays[st[1]].foreach() as v:
                self.run(st[2], dict(scope, elt=v, ixreg=v._index, ixnat=v._index))
        elif k == "enum":
            with self.arrays[st[1]].enumerate() as (i, v):
                self.run(st[2], dict(scope, elt=v, ixreg=i, ixnat=i))
        elif k == "until":
            with conn.loop_until(max_iterations=st[1]) as loop:
                self.run(st[2], scope)
                loop.set_exit_condition(ValueAtMostConstraint(self.h(st[3], scope), st[4][1]))
        elif k == "q":
            q = Qubit(conn)
            self.qubits[st[1]] = q
            self.qids[st[1]] = q.qubit_id
        elif k == "g":
            getattr(self.qubits[st[1]], st[2])()
        elif k in ("cnot", "cphase"):
            getattr(self.qubits[st[1]], k)(self.qubits[st[2]])
        elif k == "rot":
            n = st[3]
            if isinstance(n, list):
                from netqasm.lang.operand import Template
                n = Template(n[1]) if self.tmode == "template" else self.tvals[n[1]]
            getattr(self.qubits[st[1]], "rot_" + st[2])(n=n, d=st[4])
        elif k == "m":
            q = self.qubits[st[1]]
            dest, inplace = st[2], st[3]
            if dest[0] == "f":
                q.measure(future=self.h(dest, scope), inplace=inplace)
            elif dest[0] == "newf":
                f = q.measure(inplace=inplace)
                self.futs[(dest[1], 0)] = f
                self.arrays[dest[1]] = _OneEntry(conn, f)
            else:
                self.regs[dest[1]] = q.measure(store_array=False, inplace=inplace)
        elif k == "flush":
            conn.flush()
        else:
            raise ValueError(st)


class _OneEntry:
    """array handle for the 1-entry array that measure() allocates itself"""

    def __init__(self, conn, fut):
        self.conn, self.fut = conn, fut
        self.address = fut._address

    def __len__(self):
        return 1

    def __getitem__(self, i):
        return self.conn.shared_memory.get_array_part(address=self.address, index=i)

    def get_future_index(self, i):
        from netqasm.sdk.futures import Future
        return Future(self.conn, self.address, i)
