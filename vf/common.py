"""Shared reporting: evidence files, known findings, replays, exit codes, parallel map."""
from __future__ import annotations

import hashlib
import json
import multiprocessing as mp
import os
import sys
import time
import traceback
from typing import Any, Callable, Dict, List, Optional

from .symx import Cex, Stats

ROOT = os.path.dirname(os.path.dirname(os.path.abspath(__file__)))
# VERIF_OUT redirects evidence and replay files (used by tools/matrix.py so that runs against seeded changes in scratch
# worktrees do not overwrite the evidence of the real tree); VERIF_REPO names the netqasm tree under check (default /repo)
_OUT = os.environ.get("VERIF_OUT") or ROOT
EVIDENCE_DIR = os.path.join(_OUT, "evidence")
REPLAY_DIR = os.path.join(_OUT, "replays")
REPO = os.environ.get("VERIF_REPO") or "/repo"
MAX_REPLAYS = 40
KNOWN_FILE = os.path.join(ROOT, "known_findings.json")

EXIT_OK, EXIT_VIOLATION, EXIT_INCONCLUSIVE = 0, 1, 2

NPROC = int(os.environ.get("VERIF_NPROC", "16"))


def load_known(pid: str) -> List[dict]:
    try:
        with open(KNOWN_FILE) as f:
            data = json.load(f)
    except FileNotFoundError:
        return []
    return [e for e in data.get("findings", []) if e.get("property") == pid and e.get("status") == "known"]


def site_matches(entry: dict, harness: str, site: dict) -> bool:
    if entry.get("harness") != harness:
        return False
    es = entry.get("site", {})
    for k, v in es.items():
        sv = site.get(k)
        if isinstance(v, list) and not isinstance(sv, list):
            if sv not in v:
                return False
        elif sv != v:
            return False
    return True


def _jsonable(x):
    try:
        json.dumps(x)
        return x
    except TypeError:
        if isinstance(x, dict):
            return {str(k): _jsonable(v) for k, v in x.items()}
        if isinstance(x, (list, tuple, set)):
            return [_jsonable(v) for v in x]
        return repr(x)


class Report:
    def __init__(self, pid: str, tier: str, seed: int, explanation: str):
        self.pid, self.tier, self.seed = pid, tier, seed
        self.t0 = time.time()
        self.explanation = explanation
        self.stats = Stats()
        self.sections: Dict[str, dict] = {}
        self.functions_encoded: set = set()
        self.bounds: List[str] = []
        self.stubs: List[str] = []
        self.outside: List[str] = []
        self.assumptions: List[str] = []
        self.samples: List[Any] = []
        self.cexs: List[tuple] = []           # (harness, Cex-dict)
        self.inconclusive: List[str] = []
        self.vacuity: List[dict] = []
        self.extra: Dict[str, Any] = {}
        self.replayers: Dict[str, Callable[[dict], Any]] = {}

    # ---- collection
    def section(self, name: str, stats: Optional[Stats] = None, **kw):
        sec = self.sections.setdefault(name, {})
        if stats is not None:
            cur = sec.get("stats")
            if cur is None:
                sec["stats"] = stats.as_dict()
            else:
                for k, v in stats.as_dict().items():
                    cur[k] = round(cur[k] + v, 3) if isinstance(v, float) else cur[k] + v
            self.stats.add(stats)
        for k, v in kw.items():
            sec[k] = _jsonable(v)

    def add_cex(self, harness: str, cex):
        d = cex.as_dict() if isinstance(cex, Cex) else dict(cex)
        self.cexs.append((harness, d))

    def add_inconclusive(self, msg: str):
        if msg not in self.inconclusive:
            self.inconclusive.append(msg)

    def merge_worker(self, harness: str, res: dict):
        """res = dict produced by worker_result()"""
        st = Stats()
        st.__dict__.update(res["stats"])
        self.section(harness, st)
        for c in res["cexs"]:
            self.add_cex(harness, c)
        for a in res["aborts"]:
            self.add_inconclusive(f"{harness}: path aborted: {a}")
        for u in res["unknowns"]:
            self.add_inconclusive(f"{harness}: solver unknown on obligation {u}")
        for s in res.get("samples", []):
            if len(self.samples) < 12:
                self.samples.append(s)
        for f in res.get("functions", []):
            self.functions_encoded.add(f)
        if res.get("error"):
            self.add_inconclusive(f"{harness}: worker error: {res['error']}")

    def witness(self, name: str, ok: bool, detail: str = ""):
        """vacuity guard: a falsified-oracle twin must be refuted (ok=True means it was)"""
        self.vacuity.append({"twin": name, "refuted_as_expected": bool(ok), "detail": detail})
        if not ok:
            self.add_inconclusive(f"vacuity guard failed: {name} {detail}")

    # ---- finishing
    def finish(self, replay: Callable[[str, dict], Any]) -> int:
        """replay(harness, cexdict) -> (reproduced: bool, detail: str)"""
        known = load_known(self.pid)
        seen = {}
        for harness, c in self.cexs:
            key = json.dumps([harness, c["label"], c["site"]], sort_keys=True, default=repr)
            seen.setdefault(key, (harness, c, 0))
            h, cc, n = seen[key]
            seen[key] = (h, cc, n + 1)
        known_hits: Dict[Any, List[dict]] = {}
        known_by_id: Dict[Any, dict] = {}
        violations = []
        nonrepro = []
        replayed_per_label: Dict[Any, int] = {}
        skipped = 0
        for key, (harness, c, n) in seen.items():
            # a change that breaks everything can produce thousands of distinct sites; replaying each (often in a subprocess) would
            # take hours and adds nothing: once MAX_REPLAYS of them were confirmed as violations (or failed to replay) per (harness, label) the rest is only counted (inconclusive unless a
            # violation was confirmed anyway)
            k2 = (harness, c["label"])
            if replayed_per_label.get(k2, 0) >= MAX_REPLAYS:
                skipped += 1
                continue
            try:
                rep, detail = replay(harness, c)
            except Exception as e:  # noqa
                rep, detail = None, "replay raised " + repr(e) + "\n" + traceback.format_exc()
            if rep is None or rep is False:
                replayed_per_label[k2] = replayed_per_label.get(k2, 0) + 1
                nonrepro.append({"harness": harness, "cex": c, "detail": str(detail)[:2000]})
                continue
            hit = None
            for i, e in enumerate(known):
                if site_matches(e, harness, dict(c["site"], label=c["label"])):
                    hit = i
                    break
            if hit is not None:
                kid = known[hit].get("id", hit)
                known_by_id.setdefault(kid, known[hit])
                known_hits.setdefault(kid, []).append({"harness": harness, "cex": c, "paths": n, "detail": str(detail)[:500]})
            else:
                replayed_per_label[k2] = replayed_per_label.get(k2, 0) + 1
                violations.append({"harness": harness, "cex": c, "paths": n, "detail": str(detail)[:2000]})
        if skipped:
            self.add_inconclusive(f"{skipped} further counterexample sites were not replayed (cap of {MAX_REPLAYS} per harness and label)")
        for m in nonrepro:
            self.add_inconclusive("non-reproducing counterexample in %s (%s): %s" % (m["harness"], m["cex"]["label"], m["detail"][:300]))
        lines = []
        for i, hits in known_hits.items():
            e = known_by_id[i]
            lines.append("KNOWN-FINDING: property=%s %s [%d matching counterexample site(s); e.g. %s]" % (
                self.pid, e["what"], len(hits), json.dumps(hits[0]["cex"]["values"], default=repr)[:200]))
        os.makedirs(REPLAY_DIR, exist_ok=True)
        vlines = []
        for v in violations:
            blob = {"property": self.pid, "harness": v["harness"], "label": v["cex"]["label"], "site": v["cex"]["site"],
                    "values": v["cex"]["values"], "info": v["cex"].get("info"), "detail": v["detail"]}
            h = hashlib.sha1(json.dumps(blob, sort_keys=True, default=repr).encode()).hexdigest()[:10]
            path = os.path.join(REPLAY_DIR, f"{self.pid}_{v['harness']}_{h}.json")
            with open(path, "w") as f:
                json.dump(_jsonable(blob), f, indent=1)
            vlines.append(f"VIOLATION property={self.pid} replay={path}")
            print(f"  violated: harness={v['harness']} label={v['cex']['label']} site={json.dumps(v['cex']['site'], default=repr)}"
                  f" inputs={json.dumps(v['cex']['values'], default=repr)[:300]}\n  {v['detail'][:600]}")
        for ln in lines:
            print(ln)
        for ln in vlines:
            print(ln)
        if violations:
            code = EXIT_VIOLATION
        elif self.inconclusive:
            code = EXIT_INCONCLUSIVE
            for m in self.inconclusive[:20]:
                print("INCONCLUSIVE:", m)
        else:
            code = EXIT_OK
        self._write_evidence(code, known_hits, known_by_id, violations)
        print(f"{self.pid} [{self.tier}] paths={self.stats.paths} obligations={self.stats.obligations} "
              f"discharged={self.stats.discharged} cex={self.stats.cex} known={len(known_hits)} violations={len(violations)} "
              f"queries={self.stats.q_sat + self.stats.q_unsat + self.stats.q_unknown} solver_s={self.stats.solver_s:.1f} "
              f"wall_s={time.time() - self.t0:.1f} exit={code}")
        return code

    def _write_evidence(self, code, known_hits, known, violations):
        st = self.stats
        cov = {
            "explanation": self.explanation,
            "obligations": st.obligations,
            "discharged": st.discharged,
            "undischarged_known_findings": sum(h["paths"] for hs in known_hits.values() for h in hs),
            "paths": st.paths,
            "paths_aborted": st.aborted,
            "forks": st.forks,
            "queries_sat": st.q_sat,
            "queries_unsat": st.q_unsat,
            "queries_unknown": st.q_unknown,
            "solver_s": round(st.solver_s, 3),
            "evaluations": st.paths,
            "distinct_nontrivial": st.paths,
            "rule": "one evaluation = one explored execution path of the real code with its own path condition "
                    "(distinct by construction: path conditions are pairwise disjoint); every path carries symbolic data",
            "functions_encoded": sorted(self.functions_encoded),
            "bounds": self.bounds,
            "stubs": self.stubs,
            "outside_bound": self.outside,
            "harnesses": self.sections,
            "vacuity_guards": self.vacuity,
            "known_findings_reproduced": [
                {"what": known[i]["what"], "sites": [h["cex"]["site"] for h in hs][:10],
                 "example_inputs": hs[0]["cex"]["values"]} for i, hs in known_hits.items()],
            "violations": [{"harness": v["harness"], "label": v["cex"]["label"], "site": v["cex"]["site"]} for v in violations][:50],
            "inconclusive": self.inconclusive[:50],
            "samples": self.samples[:12] or ["(no samples recorded)"],
            "exit_code": code,
        }
        cov.update(self.extra)
        ev = {
            "property_id": self.pid,
            "tier": self.tier,
            "seed": self.seed,
            "level": "other",
            "coverage": _jsonable(cov),
            "assumptions": self.assumptions + ["z3 is sound on the queries it answers (unknown is never counted as pass)",
                                                "the check-side proxies (vf/symx.py, vf/cmodel.py, vf/cyclo.py) and reference oracles are correct; they are validated on every run by concrete replays and falsified-oracle twins"],
            "wall_s": round(time.time() - self.t0, 2),
            "violations": len(violations),
        }
        os.makedirs(EVIDENCE_DIR, exist_ok=True)
        tmp = os.path.join(EVIDENCE_DIR, f".{self.pid}.json.tmp")
        with open(tmp, "w") as f:
            json.dump(ev, f, indent=1)
        os.replace(tmp, os.path.join(EVIDENCE_DIR, f"{self.pid}.json"))


# ----------------------------------------------------------------------------- workers

def worker_result(ex, samples=None, functions=None, error=None) -> dict:
    return {
        "stats": ex.stats.as_dict() if ex is not None else Stats().as_dict(),
        "cexs": [c.as_dict() for c in ex.cexs] if ex is not None else [],
        "aborts": sorted(set(ex.aborts))[:20] if ex is not None else [],
        "unknowns": sorted(set(ex.unknowns))[:20] if ex is not None else [],
        "samples": samples or [],
        "functions": sorted(functions or []),
        "error": error,
    }


def _call(args):
    fn, item = args
    try:
        return fn(item)
    except BaseException as e:  # noqa
        return {"stats": Stats().as_dict(), "cexs": [], "aborts": [], "unknowns": [], "samples": [], "functions": [],
                "error": f"{type(e).__name__}: {e}\n{traceback.format_exc()[-1500:]}"}


class ModuleStateGuard:
    """Module-level mutable containers (dict / list / set globals) of the code under check are part of its state: a path of the
    explorer must start from the state the module had when it was imported, not from what earlier paths left behind (a memo table
    or an interning cache added by a change would otherwise leak symbolic values between paths and make counterexamples
    irreproducible).  reset() restores, in place, the content those containers had when the guard was created."""

    def __init__(self, *modules):
        self.saved = []
        for m in modules:
            for name, val in list(vars(m).items()):
                if name.startswith("__"):
                    continue
                if type(val) in (dict, list, set):
                    self.saved.append((m, name, type(val)(val)))
        self.modules = modules
        self.names = {(m.__name__, n) for m, n, _ in self.saved}

    def reset(self):
        for m, name, content in self.saved:
            cur = getattr(m, name, None)
            if type(cur) is type(content):
                cur.clear()
                (cur.update if isinstance(cur, (dict, set)) else cur.extend)(content)
        # containers that did not exist at import time (created lazily) are emptied as well
        for m in self.modules:
            for name, val in list(vars(m).items()):
                if not name.startswith("__") and type(val) in (dict, list, set) and (m.__name__, name) not in self.names:
                    val.clear()


def pmap(fn: Callable[[Any], dict], items: List[Any], procs: Optional[int] = None, chunksize: int = 1) -> List[dict]:
    procs = procs or NPROC
    if procs <= 1 or len(items) <= 1:
        return [_call((fn, it)) for it in items]
    ctx = mp.get_context("fork")
    with ctx.Pool(min(procs, len(items))) as pool:
        if not os.environ.get("VERIF_PROGRESS"):
            return pool.map(_call, [(fn, it) for it in items], chunksize=chunksize)
        # progress on stderr (for sizing the thorough tier): items finished / total, every ~5 %
        out, t0, step = [], time.time(), max(1, len(items) // 20)
        for i, r in enumerate(pool.imap(_call, [(fn, it) for it in items], chunksize=chunksize)):
            out.append(r)
            if (i + 1) % step == 0:
                print(f"[progress] {i + 1}/{len(items)} items after {time.time() - t0:.0f} s", file=sys.stderr, flush=True)
        return out


def trace_functions(fn: Callable[[], Any], prefix: str = REPO.rstrip("/") + "/netqasm/") -> set:
    """names of the repository functions executed by fn() (what was 'encoded' by proxy execution)"""
    seen = set()

    def prof(frame, event, arg):
        if event == "call":
            co = frame.f_code
            fnm = co.co_filename
            if fnm.startswith(prefix):
                seen.add(fnm[len(REPO.rstrip("/")) + 1:-3].replace("/", ".") + ":" + co.co_qualname)

    old = sys.getprofile()
    sys.setprofile(prof)
    try:
        fn()
    except BaseException:  # noqa
        pass
    finally:
        sys.setprofile(old)
    return seen


def tier_arg() -> str:
    return os.environ.get("VERIF_TIER", "quick")


def seed_arg() -> int:
    try:
        return int(os.environ.get("VERIF_SEED", "0"))
    except ValueError:
        return 0
