"""Shared harness pieces: executor subclasses that use only the documented extension points of
netqasm.backend.executor.Executor, and a connection that hands flushed Subroutine objects directly
to such an executor (no serialisation; that is C01/C02/C15's subject)."""
from typing import Callable, List, Optional

from netqasm.backend.executor import Executor
from netqasm.backend.messages import InitNewAppMessage, OpenEPRSocketMessage, StopAppMessage
from netqasm.lang.subroutine import Subroutine
from netqasm.sdk.connection import BaseNetQASMConnection, DebugNetworkInfo
from netqasm.sdk.shared_memory import SharedMemoryManager

from .symx import PathAbort, SymInt, _Ctx, cur


def sym_active() -> bool:
    return _Ctx.cur is not None


def window(v, length, what="index"):
    """Concretise an index-like value against a container of `length` slots:
    negative values were excluded by the reference run (precondition); 0..length-1 are forked one by one;
    everything >= length is represented by `length` (list indexing raises IndexError for all of them)."""
    if not isinstance(v, SymInt):
        return v
    ex = cur()
    if v >= length:
        return length
    if v < 0:
        raise PathAbort(f"negative {what} reached the executor (should have been excluded by the reference run)")
    return ex.concretize(v, length + 1)


class Diverged(Exception):
    """the subroutine executed more instructions than the harness step bound (treated as a violation by the checks:
    every reference program terminates well below it)"""


class TraceExecutor(Executor):
    """Records quantum events; measurement outcomes come from a script (symbolic bits)."""

    MAX_STEPS = 400

    def __init__(self, name="ctrl", outcomes=(), **kw):
        super().__init__(name=name, **kw)
        self.trace: List[tuple] = []
        self.outcomes = list(outcomes)
        self.faults: List[BaseException] = []
        self.steps = 0

    def _execute_command(self, subroutine_id, command):
        self.steps += 1
        if self.steps > self.MAX_STEPS:
            raise Diverged(f"more than {self.MAX_STEPS} instructions executed")
        return super()._execute_command(subroutine_id, command)

    # --- quantum extension points
    check_alloc = False      # True: every gate / measurement looks its qubit up with Executor._get_position, as a real back end does
                             # (a gate on a virtual qubit that is not allocated then faults with NotAllocatedError)

    def _need(self, subroutine_id, *addresses):
        if self.check_alloc:
            for a in addresses:
                self._get_position(subroutine_id=subroutine_id, address=a)

    def _do_single_qubit_instr(self, instr, subroutine_id, address):
        self._need(subroutine_id, address)
        self.trace.append((instr.mnemonic, address))

    def _do_single_qubit_rotation(self, instr, subroutine_id, address, angle):
        self._need(subroutine_id, address)
        self.trace.append((instr.mnemonic, address, instr.angle_num.value, instr.angle_denom.value))

    def _do_controlled_qubit_rotation(self, instr, subroutine_id, address1, address2, angle):
        self._need(subroutine_id, address1, address2)
        self.trace.append((instr.mnemonic, address1, address2, instr.angle_num.value, instr.angle_denom.value))

    def _do_two_qubit_instr(self, instr, subroutine_id, a1, a2):
        self._need(subroutine_id, a1, a2)
        self.trace.append((instr.mnemonic, a1, a2))

    def _do_meas(self, subroutine_id, q_address):
        self._need(subroutine_id, q_address)
        if not self.outcomes:
            raise PathAbort("outcome script exhausted")
        m = self.outcomes.pop(0)
        self.trace.append(("meas", q_address))
        return m

    def _get_rotation_angle_from_operands(self, app_id, n, d):
        # stub: the float angle is not used by the harness (events record the integer operands)
        return 0.0

    def _wait_to_handle_epr_responses(self):
        # the base implementation recurses forever; simulators override it, so does the harness
        return None

    # --- sinks that would read a proxy's payload at C level: concretise by forking (stated bound)
    def _expand_array_part(self, app_id, array_part):
        address, index = super()._expand_array_part(app_id, array_part)
        if isinstance(index, SymInt):
            arr = self._app_arrays[app_id]._arrays.get(address)
            if arr is not None:
                index = window(index, len(arr))
        elif isinstance(index, slice) and (isinstance(index.start, SymInt) or isinstance(index.stop, SymInt)):
            arr = self._app_arrays[app_id]._arrays.get(address)
            n = len(arr) if arr is not None else 0
            index = slice(window(index.start, n, "slice start"), window(index.stop, n + 1, "slice stop"))
        return address, index

    def _allocate_physical_qubit(self, subroutine_id, virtual_address, physical_address=None):
        virtual_address = window(virtual_address, len(self._get_unit_module(subroutine_id)), "qubit address")
        return super()._allocate_physical_qubit(subroutine_id, virtual_address, physical_address)

    def _free_physical_qubit(self, subroutine_id, address):
        address = window(address, len(self._get_unit_module(subroutine_id)), "qubit address")
        return super()._free_physical_qubit(subroutine_id, address)

    def _initialize_array(self, app_id, address, length):
        if isinstance(length, SymInt):
            cur().assume(length <= 4)      # bound: arrays of at most 4 entries when the length is symbolic
            cur().assume(length >= 0)
            length = cur().concretize(length, 6)
        return super()._initialize_array(app_id, address, length)


def _wire_values(instr):
    """What serialisation does to immediates: an int-subclass object (e.g. an SDK Future, which is an `int` with payload 0)
    travels as its integer payload.  Proxies (SymInt) are left alone."""
    from netqasm.lang.operand import Immediate
    ops = instr.operands
    changed = False
    new_ops = []
    for o in ops:
        if isinstance(o, Immediate) and isinstance(o.value, int) and type(o.value) is not int and not isinstance(o.value, SymInt) \
                and not hasattr(o.value, "_sym_term"):
            new_ops.append(Immediate(int.__int__(o.value)))
            changed = True
        else:
            new_ops.append(o)
    if not changed:
        return instr
    new = instr.from_operands(new_ops)
    new.lineno = instr.lineno
    return new


class _SubroutineObjectMessage:
    """stands in for netqasm.backend.messages.SubroutineMessage inside PipeConnection.commit_subroutine: carries the Subroutine object"""

    def __init__(self, subroutine):
        self.subroutine = subroutine


class PipeConnection(BaseNetQASMConnection):
    """Commits Subroutine objects directly (no ctypes) to a real Executor subclass."""

    def __init__(self, app_name="app", executor: Optional[Executor] = None, executor_factory: Optional[Callable] = None,
                 outcomes=(), **kw):
        SharedMemoryManager.reset_memories()
        BaseNetQASMConnection._app_ids.clear()
        BaseNetQASMConnection._app_names.clear() if hasattr(BaseNetQASMConnection, "_app_names") else None
        if executor is not None:
            self.executor = executor
        elif executor_factory is not None:
            self.executor = executor_factory()
        else:
            self.executor = TraceExecutor(app_name, outcomes)
        self.committed: List[Subroutine] = []
        super().__init__(app_name=app_name, node_name=self.executor.name, **kw)

    def _get_network_info(self):
        return DebugNetworkInfo

    def _commit_message(self, msg, block=True, callback=None):
        if isinstance(msg, InitNewAppMessage):
            self.executor.init_new_application(app_id=msg.app_id, max_qubits=msg.max_qubits)
        elif isinstance(msg, StopAppMessage):
            list(self.executor.stop_application(app_id=msg.app_id))
        elif isinstance(msg, _SubroutineObjectMessage):
            self._deliver_subroutine(msg.subroutine)
        elif isinstance(msg, OpenEPRSocketMessage):
            list(self.executor.setup_epr_socket(epr_socket_id=msg.epr_socket_id, remote_node_id=msg.remote_node_id,
                                                remote_epr_socket_id=msg.remote_epr_socket_id))

    def commit_subroutine(self, subroutine: Subroutine, block=True, callback=None):
        """the REAL commit_subroutine runs; only the message class it instantiates is replaced by one that does not serialise the
        subroutine to bytes (symbolic operands cannot go through ctypes; the byte level is C01 / C02 / C15)"""
        import netqasm.sdk.connection as connmod
        real = connmod.SubroutineMessage
        connmod.SubroutineMessage = _SubroutineObjectMessage
        try:
            return super().commit_subroutine(subroutine, block=block, callback=callback)
        finally:
            connmod.SubroutineMessage = real

    def _deliver_subroutine(self, subroutine: Subroutine):
        subroutine.instructions = [_wire_values(i) for i in subroutine.instructions]
        self.committed.append(subroutine)
        self.executor.consume_execute_subroutine(subroutine)

    def _commit_serialized_message(self, raw_msg, block=True, callback=None):
        raise NotImplementedError("PipeConnection bypasses serialisation")
