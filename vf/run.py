"""Entry point: python -m vf.run <id> [--tier quick|thorough] [--replay path]"""
import argparse
import importlib
import json
import os
import sys


def main():
    ap = argparse.ArgumentParser()
    ap.add_argument("pid")
    ap.add_argument("--tier", default=os.environ.get("VERIF_TIER", "quick"), choices=["quick", "thorough"])
    ap.add_argument("--replay", default=None)
    a = ap.parse_args()
    pid = a.pid.upper()
    try:
        seed = int(os.environ.get("VERIF_SEED", "0"))
    except ValueError:
        seed = 0
    mod = importlib.import_module("vf.chk." + pid.lower())
    if a.replay:
        with open(a.replay) as f:
            blob = json.load(f)
        rep, detail = mod.replay(blob["harness"], blob)
        print(f"replay property={pid} harness={blob['harness']} label={blob.get('label')} reproduced={bool(rep)}")
        print(detail)
        sys.exit(1 if rep else 0)
    sys.exit(mod.main(a.tier, seed))


if __name__ == "__main__":
    main()
