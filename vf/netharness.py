"""Harness pieces for the entanglement checks (C09-C13): a recording network stack, an executor that
delivers scripted link-layer responses at its wait points (the documented `_do_wait` extension
point), and a Pauli-frame reading of the recorded gate trace."""
from typing import Callable, Dict, List, Optional

from netqasm.backend.network_stack import BaseNetworkStack
from netqasm.qlink_compat import LinkLayerOKTypeK, LinkLayerOKTypeM, ReturnType

from .pipeline import TraceExecutor
from .symx import PathAbort


class Deadlock(Exception):
    """a wait instruction blocks and the scenario has nothing left to deliver"""


class RecStack(BaseNetworkStack):
    def __init__(self):
        self.requests = []
        self.sockets = []

    def put(self, request):
        self.requests.append(request)

    def setup_epr_socket(self, epr_socket_id, remote_node_id, remote_epr_socket_id, timeout=1.0):
        self.sockets.append((epr_socket_id, remote_node_id, remote_epr_socket_id))
        return None

    purpose_offset = 0      # a harness may make the socket-id -> purpose-id mapping non-identity (purpose = socket id + offset)

    def get_purpose_id(self, remote_node_id, epr_socket_id):
        return epr_socket_id + self.purpose_offset


class NetExecutor(TraceExecutor):
    """TraceExecutor with a network stack; `deliveries` is a list of zero-argument callables, each returning one
    link-layer response (built at delivery time, so that it can name a currently unused physical qubit)."""

    NODE_ID = 0
    MAX_STEPS = 4000     # EPR subroutines compute slice bounds in 10-iteration loops: hundreds of instructions per pair

    def __init__(self, name="ctrl", outcomes=(), **kw):
        super().__init__(name=name, outcomes=outcomes, **kw)
        self.network_stack = RecStack()
        self.deliveries: List[Callable] = []
        self.responders: Optional[List[Callable]] = None     # per request instruction: t -> list of delivery callables (see _execute_command)
        self._request_sites: dict = {}
        self.delivered: List[tuple] = []
        self.waits = 0

    @property
    def node_id(self):
        return self.NODE_ID

    reserve_with_helper = False

    def unused_physical(self):
        """the physical qubit a link layer picks for the next pair.  Default: the lowest qubit not in use, found by the harness itself
        and NOT marked (then the executor must mark it when the response is handled).  With `reserve_with_helper` the qubit is taken
        through the executor's own helper, whose contract is to return an unused qubit AND reserve it (used by C12 and by the
        concurrent scenario of C13, where several responses are in flight)."""
        if self.reserve_with_helper:
            return self._get_unused_physical_qubit()
        k = 0
        while k in self._used_physical_qubit_addresses:
            k += 1
        return k

    def deliver_next(self):
        if not self.deliveries:
            raise Deadlock("wait instruction blocks and no response is left to deliver")
        while True:
            if not self.deliveries:
                raise Deadlock("wait instruction blocks and no response is left to deliver")
            mk = self.deliveries.pop(0)
            resp = mk()
            if resp is not None:          # a conditional delivery whose request is not outstanding is skipped
                break
        self.delivered.append(tuple(resp) if isinstance(resp, tuple) else (type(resp).__name__,))
        self._handle_epr_response(resp)

    def undelivered_pairs(self) -> int:
        """pairs of outstanding requests for which no response has been handed to the executor yet"""
        left = sum(r.pairs_left for reqs in (self._epr_create_requests, self._epr_recv_requests) for lst in reqs.values() for r in lst)
        return left - len(self._pending_epr_responses)

    def outstanding(self, creator: bool, remote_node_id, purpose_id) -> bool:
        reqs = self._epr_create_requests if creator else self._epr_recv_requests
        return bool(reqs.get((remote_node_id, purpose_id)))

    eager = False     # True: the link layer answers as early as it can (right after the request instruction), not at the wait

    def _do_wait(self):
        self.waits += 1
        if self.waits > 200:
            raise Deadlock("more than 200 wait polls")
        if self._pending_epr_responses:
            n = len(self._pending_epr_responses)
            self._handle_pending_epr_responses()          # the simulators' retry loop
            if len(self._pending_epr_responses) < n:
                return None
        self.deliver_next()
        return None

    def _execute_command(self, subroutine_id, command):
        yield from super()._execute_command(subroutine_id, command)
        if self.responders is not None and command.mnemonic in ("create_epr", "recv_epr"):
            # answers are produced when (and every time) the request instruction runs: the k-th distinct request instruction, in order
            # of first execution, belongs to the k-th responder; t counts how often that instruction has run (retries)
            site = (subroutine_id, id(command))
            if site not in self._request_sites:
                self._request_sites[site] = [len(self._request_sites), 0]
            idx, t = self._request_sites[site]
            self._request_sites[site][1] += 1
            if idx < len(self.responders):
                self.deliveries.extend(self.responders[idx](t))
        if self.eager and command.mnemonic in ("create_epr", "recv_epr"):
            # answer every request that is outstanding now; responses queued for requests not issued yet (a retry) stay queued
            while self.deliveries and self.undelivered_pairs() > 0:
                mk = self.deliveries.pop(0)
                resp = mk()
                if resp is None:
                    continue
                self.delivered.append(tuple(resp) if isinstance(resp, tuple) else (type(resp).__name__,))
                self._handle_epr_response(resp)

    # record allocation events as well (a freed / newly allocated virtual qubit starts with a clean Pauli frame)
    def _allocate_physical_qubit(self, subroutine_id, virtual_address, physical_address=None):
        r = super()._allocate_physical_qubit(subroutine_id, virtual_address, physical_address)
        self.trace.append(("qalloc", virtual_address))
        return r

    def _free_physical_qubit(self, subroutine_id, address):
        yield from super()._free_physical_qubit(subroutine_id, address)
        self.trace.append(("qfree", address))


def ok_k(ex: NetExecutor, *, creator: bool, purpose_id, remote_node_id, bell_state=0, create_id=0, seq=0, goodness=0,
         goodness_time=0, phys=None, if_outstanding=False):
    def mk():
        if if_outstanding and not ex.outstanding(creator, remote_node_id, purpose_id):
            return None       # e.g. the answer to a retry that never happened
        p = ex.unused_physical() if phys is None else phys
        return LinkLayerOKTypeK(type=ReturnType.OK_K, create_id=create_id, logical_qubit_id=p,
                                directionality_flag=0 if creator else 1, sequence_number=seq, purpose_id=purpose_id,
                                remote_node_id=remote_node_id, goodness=goodness, goodness_time=goodness_time, bell_state=bell_state)
    return mk


def ok_k_qlink1(ex: NetExecutor, *, creator: bool, purpose_id, remote_node_id, bell_name: str, create_id=0, seq=0, goodness=0):
    """the same keep response in qlink-interface 1.0 form, Bell state given as that interface's enum member (by name)"""
    import qlink_interface as ql

    def mk():
        return ql.ResCreateAndKeep(create_id=create_id, directionality_flag=0 if creator else 1, sequence_number=seq, purpose_id=purpose_id,
                                   remote_node_id=remote_node_id, goodness=goodness, bell_state=ql.BellState[bell_name],
                                   logical_qubit_id=ex.unused_physical(), time_of_goodness=0)
    return mk


def ok_m_qlink1(ex: NetExecutor, *, creator: bool, purpose_id, remote_node_id, bell_name: str, outcome=0, basis_name="Z", create_id=0, seq=0,
                goodness=0):
    import qlink_interface as ql

    def mk():
        return ql.ResMeasureDirectly(create_id=create_id, directionality_flag=0 if creator else 1, sequence_number=seq, purpose_id=purpose_id,
                                     remote_node_id=remote_node_id, goodness=goodness, bell_state=ql.BellState[bell_name],
                                     measurement_outcome=outcome, measurement_basis=ql.MeasurementBasis[basis_name])
    return mk


def ok_m(ex: NetExecutor, *, creator: bool, purpose_id, remote_node_id, outcome=0, basis=0, bell_state=0, create_id=0, seq=0,
         goodness=0):
    def mk():
        return LinkLayerOKTypeM(type=ReturnType.OK_M, create_id=create_id, measurement_outcome=outcome, measurement_basis=basis,
                                directionality_flag=0 if creator else 1, sequence_number=seq, purpose_id=purpose_id,
                                remote_node_id=remote_node_id, goodness=goodness, bell_state=bell_state)
    return mk


# ----------------------------------------------------------------------------- Pauli frames

PAULI_OF_GATE = {"x": (1, 0), "z": (0, 1), "y": (1, 1)}


def pauli_frames(trace, position_of: Callable[[int], Optional[int]] = None):
    """Net Pauli applied to every *virtual* qubit according to the recorded trace (events carry virtual addresses).
    rot_x / rot_z with angle 16*pi/16 are X / Z (up to phase); `mov a b` moves the frame from a to b.
    Returns (frames: {virtual: (x, z)}, unexpected: [events that are not Pauli corrections])."""
    frames: Dict[int, tuple] = {}
    unexpected = []

    def mul(q, p):
        x, z = frames.get(q, (0, 0))
        frames[q] = (x ^ p[0], z ^ p[1])

    for ev in trace:
        mn = ev[0]
        if mn in PAULI_OF_GATE:
            mul(ev[1], PAULI_OF_GATE[mn])
        elif mn in ("rot_x", "rot_z", "rot_y"):
            n, d = ev[2], ev[3]
            if (n, d) in ((16, 4), (8, 3), (4, 2), (2, 1), (1, 0)):
                mul(ev[1], {"rot_x": (1, 0), "rot_z": (0, 1), "rot_y": (1, 1)}[mn])
            elif n == 0:
                pass
            else:
                unexpected.append(ev)
        elif mn == "mov":
            src, dst = ev[1], ev[2]
            frames[dst] = frames.pop(src, (0, 0))
        elif mn in ("qalloc", "qfree", "init"):
            frames.pop(ev[1], None)
        elif mn == "meas":
            pass
        else:
            unexpected.append(ev)
    return frames, unexpected
