"""cmodel -- a pure-Python model of the part of ``ctypes`` that netqasm uses, over z3 bit-vectors.

netqasm.lang.encoding / netqasm.lang.parsing.binary / netqasm.backend.messages are imported with
``sys.modules['ctypes']`` pointing at this module (see ``install``), so the *real* netqasm
struct declarations, serialize()/deserialize_from() functions, Subroutine.__bytes__ and the
Deserializer run unchanged, but loads and stores are z3 terms.

* Layout is not re-implemented: for every model class a twin is built with the real ctypes from
  the same _fields_/_pack_ declaration and offsets / sizes / bit offsets are read from it.
* Stores truncate (Extract of the low bits), exactly like real ctypes does silently.
* Serialised data are *tagged bytes*: each distinct byte term gets a concrete tag 0..255 and a
  registry maps tag -> BitVec(8) term, so real bytes objects can be joined / sliced by real code.
"""
import ctypes as _rc
import sys

import z3

from .symx import PathAbort, SymBool, SymInt, cur, mkb

# ----------------------------------------------------------------------------- tagged bytes


class Tags:
    reg = {}     # tag -> term
    by_id = {}   # z3 ast id -> tag
    keep = []
    nxt = 0

    @classmethod
    def reset(cls):
        cls.reg = {}
        cls.by_id = {}
        cls.keep = []
        cls.nxt = 0

    @classmethod
    def new(cls, bv8):
        bv8 = z3.simplify(bv8)
        k = bv8.get_id()
        t = cls.by_id.get(k)
        if t is not None:
            return t
        if cls.nxt > 255:
            raise PathAbort("tag space exhausted (more than 256 distinct byte terms on one path)")
        t = cls.nxt
        cls.nxt += 1
        cls.reg[t] = bv8
        cls.by_id[k] = t
        cls.keep.append(bv8)
        return t

    @classmethod
    def get(cls, t):
        try:
            return cls.reg[t]
        except KeyError:
            raise PathAbort("untagged byte reached the ctypes model")

    @classmethod
    def tag_concrete(cls, data: bytes) -> bytes:
        """turn ordinary bytes into tagged bytes"""
        return bytes(cls.new(z3.BitVecVal(b, 8)) for b in data)

    @classmethod
    def terms(cls, data: bytes):
        return [cls.get(b) for b in data]


# ----------------------------------------------------------------------------- SymBV proxy

def _resize(bv, signed, bits):
    w = bv.size()
    if w == bits:
        return bv
    if w > bits:
        return z3.Extract(bits - 1, 0, bv)
    return z3.SignExt(bits - w, bv) if signed else z3.ZeroExt(bits - w, bv)


def _bvcmp(name):
    def m(self, o):
        if isinstance(o, SymBV):
            w = max(self.bv.size(), o.bv.size()) + 1
            a, b = _resize(self.bv, self.signed, w), _resize(o.bv, o.signed, w)
        elif isinstance(o, SymInt):
            raise PathAbort("SymBV compared with SymInt")
        elif isinstance(o, int):
            o = int(o)
            w = max(self.bv.size() + 1, o.bit_length() + 2)
            a, b = _resize(self.bv, self.signed, w), z3.BitVecVal(o, w)
        else:
            return NotImplemented
        if name == "eq":
            return mkb(a == b)
        if name == "ne":
            return mkb(a != b)
        if name == "lt":
            return mkb(a < b)
        if name == "le":
            return mkb(a <= b)
        if name == "gt":
            return mkb(a > b)
        return mkb(a >= b)
    return m


class SymBV(int):
    """int subclass carrying a z3 bit-vector term; value = (un)signed reading of the term"""

    def __new__(cls, bv, signed=False):
        o = int.__new__(cls, 1 << 200)
        o.bv = bv
        o.signed = signed
        return o

    __eq__ = _bvcmp("eq")
    __ne__ = _bvcmp("ne")
    __lt__ = _bvcmp("lt")
    __le__ = _bvcmp("le")
    __gt__ = _bvcmp("gt")
    __ge__ = _bvcmp("ge")

    def __hash__(self):
        return hash(cur().concretize(self, 64))

    def __index__(self):
        return cur().concretize(self, 64)

    def __int__(self):
        return self

    def __bool__(self):
        return bool(self != 0)

    def __format__(self, spec):
        return "<sym>"

    def __str__(self):
        return "<sym>"

    __repr__ = __str__

    # Exact integer arithmetic (Python ints do not wrap): operands are sign-/zero-extended to a width in which the result cannot
    # overflow and the result is a signed SymBV of that width.  Enough for the index / key arithmetic real code does on decoded
    # fields (e.g. `10 * bank + index`); anything else aborts the path (inconclusive, never a verdict).
    def _operand(self, o):
        if isinstance(o, SymBV):
            return o.bv, o.signed, o.bv.size()
        if isinstance(o, (SymInt, SymBool)):
            raise PathAbort("SymBV arithmetic with SymInt")
        if isinstance(o, bool):
            o = int(o)
        if isinstance(o, int):
            w = int(o).bit_length() + 1
            return z3.BitVecVal(int(o), w), True, w
        return None

    def _bin(self, o, op, swap=False):
        r = self._operand(o)
        if r is None:
            return NotImplemented
        ob, osig, ow = r
        sw = self.bv.size() + (0 if self.signed else 1)
        ow = ow + (0 if osig else 1)
        if op in ("add", "sub"):
            w = max(sw, ow) + 1
        elif op == "mul":
            w = sw + ow
        else:
            w = max(sw, ow)
        if w > 512:
            raise PathAbort("SymBV arithmetic: width explosion")
        a, b = _resize(self.bv, self.signed, w), _resize(ob, osig, w)
        if swap:
            a, b = b, a
        e = {"add": lambda: a + b, "sub": lambda: a - b, "mul": lambda: a * b, "and": lambda: a & b, "or": lambda: a | b, "xor": lambda: a ^ b}[op]()
        return from_bv(e, True)

    def __add__(self, o):
        return self._bin(o, "add")

    __radd__ = __add__

    def __sub__(self, o):
        return self._bin(o, "sub")

    def __rsub__(self, o):
        return self._bin(o, "sub", swap=True)

    def __mul__(self, o):
        return self._bin(o, "mul")

    __rmul__ = __mul__

    def __and__(self, o):
        return self._bin(o, "and")

    __rand__ = __and__

    def __or__(self, o):
        return self._bin(o, "or")

    __ror__ = __or__

    def __xor__(self, o):
        return self._bin(o, "xor")

    __rxor__ = __xor__

    def __neg__(self):
        return self._bin(0, "sub", swap=True)

    def __lshift__(self, k):
        if isinstance(k, (SymBV, SymInt)) or not isinstance(k, int) or k < 0 or k > 128:
            raise PathAbort("SymBV shift by a non-constant")
        w = self.bv.size() + (0 if self.signed else 1) + k
        return from_bv(_resize(self.bv, self.signed, w) << k, True)

    def __rshift__(self, k):
        if isinstance(k, (SymBV, SymInt)) or not isinstance(k, int) or k < 0:
            raise PathAbort("SymBV shift by a non-constant")
        w = self.bv.size() + (0 if self.signed else 1)
        return from_bv(_resize(self.bv, self.signed, w) >> min(k, w - 1), True)      # arithmetic shift = floor division by 2^k

    def _divmod_const(self, o, want):
        # floor semantics; only by a positive constant (sign handled by case split on the dividend)
        if isinstance(o, (SymBV, SymInt)) or not isinstance(o, int) or o <= 0:
            raise PathAbort("SymBV division by a non-constant or non-positive value")
        w = max(self.bv.size() + 2, int(o).bit_length() + 2)
        a, b = _resize(self.bv, self.signed, w), z3.BitVecVal(int(o), w)
        q, r = a / b, z3.SRem(a, b)                                   # signed, truncating
        adj = z3.And(r != 0, a < 0)
        q, r = z3.If(adj, q - 1, q), z3.If(adj, r + b, r)
        return from_bv(q if want == "q" else r, True)

    def __floordiv__(self, o):
        return self._divmod_const(o, "q")

    def __mod__(self, o):
        return self._divmod_const(o, "r")

    def _arith(self, *_a):
        raise PathAbort("arithmetic on SymBV is not modelled")

    __rfloordiv__ = __rmod__ = __rlshift__ = __rrshift__ = __truediv__ = __rtruediv__ = __pow__ = __rpow__ = _arith

    def __deepcopy__(self, memo):
        return self

    def __copy__(self):
        return self

    # concretisation protocol (Explorer.concretize)
    def _sym_term(self):
        return self.bv

    def _sym_const(self, k):
        return z3.BitVecVal(k, self.bv.size())

    def _sym_val(self, zv):
        return zv.as_signed_long() if self.signed else zv.as_long()


def to_bv(v, bits):
    if isinstance(v, SymBV):
        return _resize(v.bv, v.signed, bits)
    if isinstance(v, SymInt):
        raise PathAbort("SymInt stored into the ctypes model (use SymBV operands)")
    if isinstance(v, SymBool):
        raise PathAbort("SymBool stored into the ctypes model")
    if isinstance(v, bool):
        v = int(v)
    if isinstance(v, int):
        return z3.BitVecVal(int(v), bits)
    if isinstance(v, float):
        raise TypeError("int expected instead of float")
    raise TypeError(f"an integer is required (got type {type(v).__name__})")


def from_bv(bv, signed):
    bv = z3.simplify(bv)
    if z3.is_bv_value(bv):
        return bv.as_signed_long() if signed else bv.as_long()
    return SymBV(bv, signed)


def as_term(v, bits, signed):
    """harness helper: z3 bit-vector of `bits` bits for a python int or SymBV"""
    if isinstance(v, SymBV):
        return _resize(v.bv, v.signed, bits)
    return z3.BitVecVal(int(v), bits)


# ----------------------------------------------------------------------------- ctypes model

class _Meta(type):
    def __mul__(cls, n):
        if not isinstance(n, int) or isinstance(n, bool):
            raise TypeError("Can't multiply a ctypes type by a non-int of type %s" % type(n).__name__)
        if isinstance(n, (SymBV, SymInt)):
            n = cur().concretize(n, 16)
        if n < 0:
            raise ValueError("Array length must be >= 0, not %d" % n)
        return _make_array(cls, n)


class _CData(metaclass=_Meta):
    _real_ = None

    @classmethod
    def _size(cls):
        return _rc.sizeof(cls._real_)

    def __bytes__(self):
        return bytes(Tags.new(b) for b in self._to_bvs())

    @classmethod
    def from_buffer_copy(cls, raw, offset=0):
        n = cls._size()
        if len(raw) - offset < n:
            raise ValueError("Buffer size too small (%d instead of at least %d bytes)" % (len(raw), n + offset))
        return cls._from_bvs([Tags.get(raw[offset + i]) for i in range(n)])

    @classmethod
    def from_buffer(cls, buf, offset=0):
        """zero-copy view, as in ctypes: the object keeps reading the (writable) buffer, so later writes to the buffer show through"""
        if not isinstance(buf, (bytearray, memoryview)):
            raise TypeError("underlying buffer is not writable")
        n = cls._size()
        if len(buf) - offset < n:
            raise ValueError("Buffer size too small (%d instead of at least %d bytes)" % (len(buf), n + offset))
        o = cls._from_bvs([Tags.get(buf[offset + i]) for i in range(n)])
        object.__setattr__(o, "_live", (buf, offset, n))
        return o

    def _refresh(self):
        live = getattr(self, "_live", None)
        if live is not None:
            buf, offset, n = live
            fresh = type(self)._from_bvs([Tags.get(buf[offset + i]) for i in range(n)])
            if hasattr(fresh, "_vals"):
                object.__setattr__(self, "_vals", fresh._vals)


class _Scalar(_CData):
    _bits_ = 8
    _signed_ = False

    def __init__(self, value=0):
        self._bv = to_bv(value, self._bits_)

    @property
    def value(self):
        return from_bv(self._bv, self._signed_)

    @value.setter
    def value(self, v):
        self._bv = to_bv(v, self._bits_)

    _big_endian_ = False      # True for the __ctype_be__ variants: most significant byte first

    def _to_bvs(self):
        bs = [z3.Extract(8 * i + 7, 8 * i, self._bv) for i in range(self._bits_ // 8)]
        return list(reversed(bs)) if self._big_endian_ else bs

    @classmethod
    def _from_bvs(cls, bs):
        o = cls.__new__(cls)
        if cls._big_endian_:
            bs = list(reversed(bs))
        o._bv = z3.Concat(*reversed(bs)) if len(bs) > 1 else bs[0]
        return o

    def __repr__(self):
        return f"{type(self).__name__}(<model>)"


def _scalar(name, real, bits, signed):
    le = _Meta(name, (_Scalar,), {"_real_": real, "_bits_": bits, "_signed_": signed})
    if bits > 8:
        be = _Meta(name + "_be", (_Scalar,), {"_real_": real.__ctype_be__, "_bits_": bits, "_signed_": signed, "_big_endian_": True})
    else:
        be = le
    le.__ctype_le__, le.__ctype_be__ = le, be
    if be is not le:
        be.__ctype_le__, be.__ctype_be__ = le, be
    return le


c_uint8 = _scalar("c_uint8", _rc.c_uint8, 8, False)
c_ubyte = c_uint8
c_int8 = _scalar("c_int8", _rc.c_int8, 8, True)
c_uint16 = _scalar("c_uint16", _rc.c_uint16, 16, False)
c_int16 = _scalar("c_int16", _rc.c_int16, 16, True)
c_uint32 = _scalar("c_uint32", _rc.c_uint32, 32, False)
c_int32 = _scalar("c_int32", _rc.c_int32, 32, True)
c_uint64 = _scalar("c_uint64", _rc.c_uint64, 64, False)
c_int64 = _scalar("c_int64", _rc.c_int64, 64, True)
c_int = c_int32
c_uint = c_uint32

_ac = {}


def _make_array(elt, n):
    if (elt, n) in _ac:
        return _ac[(elt, n)]

    class _Arr(_CData):
        _real_ = elt._real_ * n
        _type_ = elt
        _length_ = n
        _elt_size_ = _rc.sizeof(elt._real_)

        def __init__(self, *vals):
            if len(vals) > n:
                raise IndexError("too many initializers")
            self._items = [_coerce(elt, v) for v in vals] + [elt.__new__(elt) if not issubclass(elt, _Scalar) else elt()
                                                             for _ in range(n - len(vals))]

        def __len__(self):
            return n

        def __getitem__(self, i):
            if isinstance(i, slice):
                return [self[j] for j in range(*i.indices(n))]
            it = self._items[i]
            return it.value if isinstance(it, _Scalar) else it

        def __setitem__(self, i, v):
            self._items[i] = _coerce(elt, v)

        def __iter__(self):
            return iter([self[i] for i in range(n)])

        def _to_bvs(self):
            return [b for it in self._items for b in it._to_bvs()]

        @classmethod
        def _from_bvs(cls, bs):
            o = cls.__new__(cls)
            sz = elt._size()
            o._items = [elt._from_bvs(bs[i * sz:(i + 1) * sz]) for i in range(n)]
            return o

    _Arr.__name__ = f"{elt.__name__}_Array_{n}"
    _ac[(elt, n)] = _Arr
    return _Arr


def _coerce(typ, v):
    if isinstance(v, typ):
        return typ._from_bvs(v._to_bvs())
    if issubclass(typ, _Scalar):
        if isinstance(v, _CData):
            raise TypeError("incompatible types, %s instance instead of %s instance" % (type(v).__name__, typ.__name__))
        return typ(v)
    if hasattr(typ, "_length_"):
        if isinstance(v, _CData):
            raise TypeError("incompatible types, %s instance instead of %s instance" % (type(v).__name__, typ.__name__))
        return typ(*v)
    if isinstance(v, tuple):
        return typ(*v)
    raise TypeError("expected %s instance, got %s" % (typ.__name__, type(v).__name__))


class _Field:
    def __init__(s, name, typ, offset, size, bits=None, bitoff=None):
        s.name, s.typ, s.offset, s.size, s.bits, s.bitoff = name, typ, offset, size, bits, bitoff

    def __get__(s, obj, owner=None):
        if obj is None:
            return s
        obj._refresh()
        v = obj._vals[s.name]
        if s.bits is not None:
            return from_bv(v, s.typ._signed_)
        return v.value if isinstance(v, _Scalar) else v

    def __set__(s, obj, v):
        if s.bits is not None:
            obj._vals[s.name] = to_bv(v, s.bits)
        else:
            obj._vals[s.name] = _coerce(s.typ, v)


class _SMeta(_Meta):
    def __new__(m, name, bases, ns):
        cls = super().__new__(m, name, bases, ns)
        if "_fields_" in ns:
            m._process(cls, ns["_fields_"])
        return cls

    def __setattr__(cls, k, v):
        super().__setattr__(k, v)
        if k == "_fields_":
            type(cls)._process(cls, v)

    @staticmethod
    def _process(cls, fields):
        rb = [b._real_ for b in cls.__mro__[1:]
              if isinstance(getattr(b, "_real_", None), type) and issubclass(b._real_, _rc.Structure)]
        ns = {"_fields_": [(f[0], f[1]._real_) + tuple(f[2:]) for f in fields]}
        if "_pack_" in cls.__dict__:
            ns["_pack_"] = cls.__dict__["_pack_"]
        real = type(_rc.Structure)("Real" + cls.__name__, (rb[0] if rb else _rc.Structure,), ns)
        type.__setattr__(cls, "_real_", real)
        mine = []
        for f in fields:
            d = getattr(real, f[0])
            if len(f) == 3:
                fld = _Field(f[0], f[1], d.offset, _rc.sizeof(f[1]._real_), d.size >> 16, d.size & 0xFFFF)
            else:
                fld = _Field(f[0], f[1], d.offset, d.size)
            type.__setattr__(cls, f[0], fld)
            mine.append(fld)
        type.__setattr__(cls, "_all_fields_", list(getattr(cls.__mro__[1], "_all_fields_", [])) + mine)


class Structure(_CData, metaclass=_SMeta):
    _all_fields_ = []
    _real_ = _rc.Structure

    def __new__(cls, *a, **k):
        o = super().__new__(cls)
        object.__setattr__(o, "_vals", {})
        for f in cls._all_fields_:
            if f.bits is not None or issubclass(f.typ, _Scalar):
                f.__set__(o, 0)
            else:
                o._vals[f.name] = f.typ.__new__(f.typ) if issubclass(f.typ, Structure) else f.typ()
        return o

    def __init__(self, *args, **kwargs):
        fs = type(self)._all_fields_
        if len(args) > len(fs):
            raise TypeError("too many initializers")
        for f, v in zip(fs, args):
            f.__set__(self, v)
        by = {f.name: f for f in fs}
        for k, v in kwargs.items():
            if k in by:
                by[k].__set__(self, v)
            else:
                object.__setattr__(self, k, v)

    def _to_bvs(self):
        n = type(self)._size()
        out = [z3.BitVecVal(0, 8)] * n
        for f in type(self)._all_fields_:
            v = self._vals[f.name]
            if f.bits is not None:
                if type(self)._swapped_:
                    raise PathAbort("bit-fields of big-endian structures are not modelled")
                w = 8 * f.size
                raw = z3.ZeroExt(w - f.bits, v) << f.bitoff
                for i in range(f.size):
                    out[f.offset + i] = out[f.offset + i] | z3.Extract(8 * i + 7, 8 * i, raw)
            else:
                bs_ = v._to_bvs()
                if type(self)._swapped_:
                    bs_ = type(self)._swap(f, bs_)
                for i, b in enumerate(bs_):
                    out[f.offset + i] = b
        return out

    _swapped_ = False

    @staticmethod
    def _swap(f, bs_):
        """byte order of one field of a big-endian structure (host is little-endian): scalars reversed, byte arrays unchanged"""
        if issubclass(f.typ, _Scalar):
            return list(reversed(bs_))
        if getattr(f.typ, "_elt_size_", None) == 1:
            return bs_
        raise PathAbort("big-endian structure with a field kind the ctypes model does not cover")

    @classmethod
    def _from_bvs(cls, bs):
        o = cls.__new__(cls)
        for f in cls._all_fields_:
            chunk = bs[f.offset:f.offset + f.size]
            if f.bits is not None:
                if cls._swapped_:
                    raise PathAbort("bit-fields of big-endian structures are not modelled")
                raw = z3.Concat(*reversed(chunk)) if len(chunk) > 1 else chunk[0]
                o._vals[f.name] = z3.Extract(f.bitoff + f.bits - 1, f.bitoff, raw)
            else:
                if cls._swapped_:
                    chunk = cls._swap(f, chunk)
                o._vals[f.name] = f.typ._from_bvs(chunk)
        return o


class BigEndianStructure(Structure):
    """host byte order is little-endian (asserted at import): multi-byte scalar fields are stored most significant byte first"""
    _real_ = _rc.BigEndianStructure
    _swapped_ = True


class LittleEndianStructure(Structure):
    _real_ = _rc.LittleEndianStructure


assert sys.byteorder == "little"


def sizeof(x):
    return x._size() if isinstance(x, type) else type(x)._size()


# ----------------------------------------------------------------------------- install

MODEL_MODULES = ("netqasm.lang.encoding", "netqasm.lang.parsing.binary", "netqasm.backend.messages")


def install():
    """import the three ctypes-using netqasm modules against this model"""
    import logging  # noqa
    import numpy  # noqa
    import scipy  # noqa
    import scipy.linalg  # noqa
    import yaml  # noqa
    import qlink_interface  # noqa
    assert not any(m.startswith("netqasm") for m in sys.modules), "install() must run before netqasm is imported"
    me = sys.modules[__name__]
    sys.modules["ctypes"] = me
    try:
        import netqasm.lang.encoding  # noqa
        import netqasm.lang.parsing.binary  # noqa
        import netqasm.backend.messages  # noqa
    finally:
        sys.modules["ctypes"] = _rc
    import netqasm.lang.encoding as enc
    assert enc.ctypes is me
    return me


def model_classes():
    """all model Structure classes declared by the installed netqasm modules: [(module, name, cls)]"""
    out = []
    for mn in MODEL_MODULES:
        mod = sys.modules[mn]
        for name, obj in vars(mod).items():
            if isinstance(obj, type) and issubclass(obj, Structure) and obj is not Structure and obj.__module__ == mn:
                out.append((mn, name, obj))
    return out
