"""SymReal -- real-valued proxies over z3 Reals for netqasm.sdk.toolbox.state_prep (C19).

The module globals `np` and `int` of state_prep are replaced (inside the check process) by stubs that
understand SymReal.  Contracts of the stubs (= environment model of binary64 arithmetic, listed in the
evidence):
  * `x % m` (float modulo, m > 0 a constant) returns an arbitrary r with 0 <= r <= m  (the float result can be
    rounded up to m itself, e.g. -1e-20 % (2 pi) == 2 pi);
  * division / multiplication by constants and powers of two, and the subtraction `rest -= n / 2**d`, are exact
    (power-of-two scaling; Sterbenz: n/2^d in [rest/2, rest]); np.pi is its exact binary64 rational;
  * np.floor(np.log2(c / x)) returns an integer D with 2^D <= (c/x)(1+2^-50) and (c/x)(1-2^-50) < 2^(D+1)
    (explored by forking over the feasible D);
  * np.floor / int of a real v return a fresh integer k with k <= v < k + 1.
"""
import builtins
import math
from fractions import Fraction

import z3

from .symx import PathAbort, SymBool, SymInt, _Ctx, cur, mk, mkb

PI_F = 3.141592653589793
EPS = Fraction(1, 2 ** 50)
MOD_HOOK = None      # harness callback receiving the fresh remainder term (used to partition the input space)
LOG2_HOOK = None     # harness callback (call_index, cond_for) -> None | D : lets the harness pin the k-th exponent (partitioning)


def R(x):
    if isinstance(x, SymReal):
        return x.e
    if isinstance(x, SymInt):
        return z3.ToReal(x.e)
    if isinstance(x, float):
        return z3.RealVal(str(Fraction(x)))
    if isinstance(x, Fraction):
        return z3.RealVal(str(x))
    if isinstance(x, int):
        return z3.RealVal(x)
    raise TypeError(type(x))


def mkr(e):
    e = z3.simplify(e)
    if z3.is_rational_value(e):
        return Fraction(e.numerator_as_long(), e.denominator_as_long())
    return SymReal(e)


class SymReal:
    def __init__(self, e):
        self.e = e

    def _c(self, fn, o):
        return mkb(fn(self.e, R(o)))

    def __gt__(self, o):
        return self._c(lambda a, b: a > b, o)

    def __lt__(self, o):
        return self._c(lambda a, b: a < b, o)

    def __ge__(self, o):
        return self._c(lambda a, b: a >= b, o)

    def __le__(self, o):
        return self._c(lambda a, b: a <= b, o)

    def __eq__(self, o):
        return self._c(lambda a, b: a == b, o)

    def __ne__(self, o):
        return self._c(lambda a, b: a != b, o)

    def __hash__(self):
        # every SymReal falls into the same bucket, so a dict / set lookup with a symbolic real key compares with `==`, which forks on
        # "the two reals are equal" -- the faithful symbolic reading of e.g. a memo table keyed by an angle.  (A concrete float key
        # is never found equal to a symbolic one: an under-approximation, stated.)
        return 0x5EA1

    def __sub__(self, o):
        return SymReal(self.e - R(o))

    def __rsub__(self, o):
        return SymReal(R(o) - self.e)

    def __add__(self, o):
        return SymReal(self.e + R(o))

    __radd__ = __add__

    def __neg__(self):
        return SymReal(-self.e)

    def __mul__(self, o):
        if isinstance(o, (SymReal, SymInt)):
            raise PathAbort("nonlinear real multiplication")
        return SymReal(self.e * R(o))

    __rmul__ = __mul__

    def __truediv__(self, o):
        if isinstance(o, (SymReal, SymInt)):
            raise PathAbort("nonlinear real division")
        return SymReal(self.e / R(o))

    def __rtruediv__(self, o):
        return Ratio(o, self)

    def __mod__(self, o):
        if isinstance(o, (SymReal, SymInt)) or o <= 0:
            raise PathAbort("modulo outside the stub")
        ex = cur()
        ex.nfresh = getattr(ex, "nfresh", 0) + 1
        r = z3.Real(f"r_mod{ex.nfresh}")
        ex.inputs.vars[f"r_mod{ex.nfresh}"] = r
        ex.assume_expr(r >= 0)
        ex.assume_expr(r <= R(o))
        if MOD_HOOK is not None:
            MOD_HOOK(r)
        return SymReal(r)

    def __round__(self, ndigits=None):
        """round(x, nd): a fresh integer k with |x * 10^nd - k| <= 1/2, returned as k / 10^nd (ties are left to the solver: either way)"""
        nd = 0 if ndigits is None else int(ndigits)
        ex = cur()
        ex.nfresh = getattr(ex, "nfresh", 0) + 1
        k = z3.Int(f"round{ex.nfresh}")
        ex.inputs.vars[f"round{ex.nfresh}"] = k
        scale = Fraction(10) ** nd
        ex.assume_expr(z3.ToReal(k) - R(Fraction(1, 2)) <= self.e * R(scale))
        ex.assume_expr(self.e * R(scale) <= z3.ToReal(k) + R(Fraction(1, 2)))
        return SymIntR(k) if ndigits is None else SymReal(z3.ToReal(k) / R(scale))

    def __float__(self):
        raise PathAbort("float() of SymReal")

    def __format__(self, s):
        return "<symreal>"

    __str__ = __repr__ = lambda self: "<symreal>"


class Ratio:
    """c / x with x symbolic (> 0)"""

    def __init__(self, c, x):
        self.c, self.x = c, x


class Log2Of:
    def __init__(self, ratio):
        self.ratio = ratio


class SymIntR(SymInt):
    """SymInt whose true division by a concrete power of two stays exact (a real)"""

    def __truediv__(self, o):
        if isinstance(o, int) and not isinstance(o, SymInt) and o > 0:
            return mkr(z3.ToReal(self.e) / o)
        raise PathAbort("true division outside the stub")

    def __mod__(self, o):
        r = SymInt.__mod__(self, o)
        return r

    def __sub__(self, o):
        r = SymInt.__sub__(self, o)
        return SymIntR(r.e) if isinstance(r, SymInt) else r


def fresh_floor(v: SymReal):
    ex = cur()
    ex.nfresh = getattr(ex, "nfresh", 0) + 1
    k = z3.Int(f"floor{ex.nfresh}")
    ex.inputs.vars[f"floor{ex.nfresh}"] = k
    ex.assume_expr(z3.ToReal(k) <= v.e)
    ex.assume_expr(v.e < z3.ToReal(k) + 1)
    return SymIntR(k)


class NPStub:
    pi = PI_F
    D_RANGE = range(-8, 80)

    @staticmethod
    def fmod(x, m):
        """C fmod: the result has the sign of the dividend; |result| <= m after rounding.  The hook gets the TRUE remainder"""
        if not isinstance(x, SymReal) or isinstance(m, (SymReal, SymInt)) or m <= 0:
            return math.fmod(x, m)
        ex = cur()
        ex.nfresh = getattr(ex, "nfresh", 0) + 1
        r = z3.Real(f"r_mod{ex.nfresh}")
        ex.inputs.vars[f"r_mod{ex.nfresh}"] = r
        ex.assume_expr(r >= -R(m))
        ex.assume_expr(r <= R(m))
        if MOD_HOOK is not None:
            MOD_HOOK(z3.If(r < 0, r + R(m), r))
        return SymReal(r)

    @staticmethod
    def log2(v):
        if isinstance(v, Ratio):
            return Log2Of(v)
        return math.log2(v)

    @staticmethod
    def floor(v):
        if isinstance(v, Log2Of):
            # like Explorer.concretize, for the integer D = floor(log2(c/x)) (2^D is not a linear term): take a model of the
            # path condition, compute the D it implies, fork on "D is this value"; repeat on the other side until infeasible
            c, x = v.ratio.c, v.ratio.x
            cq = Fraction(c)
            ex = cur()
            tags = ex.__dict__.setdefault("_log2_tags", {})

            def cond_for(D):
                p = Fraction(2) ** D
                return z3.And(x.e * R(p) <= R(cq * (1 + EPS)), R(cq * (1 - EPS)) < x.e * R(2 * p))

            ex.nlog2 = getattr(ex, "nlog2", 0) + 1
            if LOG2_HOOK is not None:
                pinned = LOG2_HOOK(ex.nlog2, cond_for)
                if pinned is not None:
                    return pinned
            for _ in range(200):
                if ex.pos < len(ex.prefix):
                    kind, val, rec = ex.prefix[ex.pos]
                    D = tags.get(rec.get_id()) if rec is not None else None
                    if D is None:
                        raise PathAbort("log2 replay without record")
                    cond = rec
                else:
                    if ex._model is None:
                        r = ex.check()
                        if r == "unsat":
                            from .symx import Infeasible
                            raise Infeasible()
                        if r != "sat":
                            raise PathAbort("log2: solver unknown")
                        ex._model = ex.s.model()
                    xv = ex._model.eval(x.e, model_completion=True)
                    xq = Fraction(xv.numerator_as_long(), xv.denominator_as_long())
                    if xq <= 0:
                        raise PathAbort("log2 of a non-positive ratio")
                    ratio = cq / xq
                    D = ratio.numerator.bit_length() - ratio.denominator.bit_length()
                    while Fraction(2) ** D > ratio:
                        D -= 1
                    while Fraction(2) ** (D + 1) <= ratio:
                        D += 1
                    cond = cond_for(D)
                    tags[cond.get_id()] = D
                    ex.__dict__.setdefault("_log2_keep", []).append(cond)
                if ex.decide(cond):
                    return D
            raise PathAbort("log2 exponent: more than 200 candidates")
        if isinstance(v, SymReal):
            return fresh_floor(v)
        if isinstance(v, Fraction):
            return math.floor(v)
        return math.floor(v)


def sym_int(v):
    if isinstance(v, SymInt):
        return v
    if isinstance(v, SymReal):
        return fresh_floor(v)       # only applied to non-negative values here: trunc == floor
    if isinstance(v, Fraction):
        return builtins.int(v)
    return builtins.int(v)


def sym_float(v):
    if isinstance(v, SymReal):
        return v
    return builtins.float(v)


def install(module):
    """replace `np`, `int` and `float` in the given module (state_prep); returns a restore function"""
    old_np, old_int = module.np, module.__dict__.get("int")
    old_float = module.__dict__.get("float")
    module.np = NPStub
    module.int = sym_int
    module.float = sym_float

    def restore():
        module.np = old_np
        if old_int is None:
            module.__dict__.pop("int", None)
        else:
            module.int = old_int
        if old_float is None:
            module.__dict__.pop("float", None)
        else:
            module.float = old_float
    return restore
