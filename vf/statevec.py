"""StateVecExecutor -- a state-vector backend over the exact cyclotomic semantics of vf/cyclo.py.

Only the documented extension points of netqasm.backend.executor.Executor are overridden.  The
"state" is the exact linear map from a free input state to the current (un-normalised) state, indexed
by PHYSICAL qubit position (the executor's own virtual->physical map is part of what is exercised).
A slot that was never allocated holds |0>; measurement applies the un-normalised projector for the
outcome taken from a (symbolic) script and, when the qubit is released, returns the slot to |0>.
"""
from . import cyclo as cy
from .netharness import NetExecutor
from .symx import PathAbort, SymInt, cur, _Ctx


class StateVecExecutor(NetExecutor):
    def __init__(self, name="ctrl", n_phys=4, outcomes=(), **kw):
        super().__init__(name=name, outcomes=outcomes, **kw)
        self.n = n_phys
        self.U = cy.identity(n_phys)
        self.slot_value = {}          # physical slot -> last measured outcome (for the reset on release)
        self.meas_log = []

    # positions
    def _pos(self, subroutine_id, address):
        p = self._get_position(subroutine_id=subroutine_id, address=address)
        if p is None or not (0 <= p < self.n):
            raise RuntimeError(f"physical position {p} outside the simulated register")
        return p

    def _get_rotation_angle_from_operands(self, app_id, n, d):
        """the float angle the real executor hands to a back end must be n pi / 2^d (modulo a full turn); this simulator itself works
        on the exact operands, so the float is only checked here"""
        if isinstance(n, SymInt) or isinstance(d, SymInt):
            return 0.0
        import math
        from netqasm.backend.executor import Executor
        a = Executor._get_rotation_angle_from_operands(self, app_id, n, d)
        want = n * math.pi / 2 ** d
        if abs(math.remainder(a - want, 2 * math.pi)) > 1e-9:
            raise RuntimeError(f"angle handed to the back end for ({n}, {d}) is {a!r}, not {n} pi / 2^{d}")
        return a

    def _do_single_qubit_instr(self, instr, subroutine_id, address):
        super()._do_single_qubit_instr(instr, subroutine_id, address)
        mn = instr.mnemonic
        if mn == "init":
            return None        # harness contract: init only on fresh (|0>) slots
        if mn not in cy.FIXED:
            raise RuntimeError(f"no operator semantics for {mn}")
        self.U = cy.apply1(self.U, self.n, self._pos(subroutine_id, address), cy.FIXED[mn])
        return None

    def _do_single_qubit_rotation(self, instr, subroutine_id, address, angle):
        super()._do_single_qubit_rotation(instr, subroutine_id, address, angle)
        n, d = instr.angle_num.value, instr.angle_denom.value
        if isinstance(n, SymInt) or isinstance(d, SymInt):
            raise PathAbort("symbolic rotation operands on the state-vector backend")
        self.U = cy.apply1(self.U, self.n, self._pos(subroutine_id, address), cy.rot(instr.mnemonic[-1], n, d))
        return None

    def _do_controlled_qubit_rotation(self, instr, subroutine_id, address1, address2, angle):
        super()._do_controlled_qubit_rotation(instr, subroutine_id, address1, address2, angle)
        self.U = cy.crot(self.U, self.n, self._pos(subroutine_id, address1), self._pos(subroutine_id, address2),
                         instr.mnemonic[-1], instr.angle_num.value, instr.angle_denom.value)
        return None

    def _do_two_qubit_instr(self, instr, subroutine_id, a1, a2):
        super()._do_two_qubit_instr(instr, subroutine_id, a1, a2)
        p1, p2 = self._pos(subroutine_id, a1), self._pos(subroutine_id, a2)
        if instr.mnemonic == "cnot":
            self.U = cy.cnot(self.U, self.n, p1, p2)
        elif instr.mnemonic == "cphase":
            self.U = cy.cphase(self.U, self.n, p1, p2)
        else:
            raise RuntimeError(f"no operator semantics for {instr.mnemonic}")
        return None

    def _do_meas(self, subroutine_id, q_address):
        m = super()._do_meas(subroutine_id, q_address)
        if isinstance(m, SymInt):
            m = cur().concretize(m, 2)
        p = self._pos(subroutine_id, q_address)
        self.U = cy.project(self.U, self.n, p, m)
        self.slot_value[p] = m
        self.meas_log.append((p, m))
        return m

    def _clear_phys_qubit_in_memory(self, physical_address):
        # the slot goes back to |0>: only defined here for a qubit whose value is known from a measurement
        m = self.slot_value.pop(physical_address, None)
        if m is None:
            # releasing an unmeasured qubit: trace it out is not linear -- outside the harness
            self.released_unmeasured = True
        elif m == 1 and 0 <= physical_address < self.n:
            self.U = cy.apply1(self.U, self.n, physical_address, cy.X)
        return None
