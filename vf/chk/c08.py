"""C08 -- NV transpilation preserves program behaviour, not only gates.

A vanilla subroutine (text templates of the kind the SDK emits: Q registers written by `set` or `load`,
gates around conditionals, loops and end labels, measurement, classical instructions) is executed on the
exact state-vector executor with vanilla gate semantics; a copy is transpiled by the real
NVSubroutineTranspiler and executed with NV semantics.  Both start from the same arbitrary quantum state
(free real coordinates, 3 qubits = electron + 2 carbons), the same symbolic registers and the same
symbolic measurement script.  z3 decides per path: same classical memory, same fault behaviour, final
states equal up to a global phase; every controlled rotation is driven by the electron.
"""
import copy
import itertools
import random

import z3

from .. import cyclo as cy
from ..common import Report, pmap, trace_functions, worker_result
from ..statevec import StateVecExecutor
from ..symx import EQ, Explorer, Infeasible, Ob, PathAbort, run_concrete

from netqasm.lang.encoding import RegisterName
from netqasm.lang.instr.flavour import NVFlavour
from netqasm.lang.operand import Immediate
from netqasm.lang.parsing import parse_text_subroutine
from netqasm.sdk.shared_memory import SharedMemoryManager
from netqasm.sdk.transpile import NVSubroutineTranspiler

PID = "C08"
HDR = "# NETQASM 1.0\n# APPID 0\n"
NQ = 3
LRA = {"queries": 0, "sat": 0, "unsat": 0, "unknown": 0, "solver_s": 0.0}
PREFIX = "".join(f"set Q0 {v}\nqalloc Q0\ninit Q0\n" for v in range(NQ))


class NVChecked(StateVecExecutor):
    """NV run: a controlled rotation must be driven by the electron (virtual qubit 0)"""

    def __init__(self, *a, **k):
        super().__init__(*a, **k)
        self.bad_control = []

    def _do_controlled_qubit_rotation(self, instr, subroutine_id, address1, address2, angle):
        if address1 != 0:
            self.bad_control.append((instr.mnemonic, address1, address2))
        return super()._do_controlled_qubit_rotation(instr, subroutine_id, address1, address2, angle)


def run_one(text_body, transpile, debug, sym, outcomes):
    SharedMemoryManager.reset_memories()
    ex = (NVChecked if transpile else StateVecExecutor)("ctrl", n_phys=NQ, outcomes=list(outcomes))
    ex.init_new_application(app_id=0, max_qubits=NQ)
    list(ex.execute_subroutine(parse_text_subroutine(HDR + PREFIX)))
    ex.U = cy.identity(NQ)      # arbitrary joint state of the three allocated qubits
    sub = parse_text_subroutine(HDR + text_body)
    # symbolic values are patched into `set R<k> 7777<k>` placeholders
    for ins in sub.instructions:
        if ins.mnemonic == "set" and isinstance(ins.imm.value, int) and 77770 <= ins.imm.value <= 77779:
            ins.imm = Immediate(sym[ins.imm.value - 77770])
    n_orig = len(sub.instructions)
    if transpile:
        # another subroutine was transpiled earlier in the same process, by its own transpiler object (nothing may carry over)
        NVSubroutineTranspiler(parse_text_subroutine(HDR + "set Q0 1\nset Q1 0\nset Q2 2\ncnot Q0 Q1\ncphase Q2 Q1\n"), debug=False).transpile()
        sub = NVSubroutineTranspiler(sub, debug=debug).transpile()
    fault = None
    try:
        list(ex.execute_subroutine(sub))
    except (PathAbort, Infeasible):
        raise
    except Exception as e:  # noqa
        fault = e
    regs = {(b.name, i): v for b, g in ex._registers[0].items() for i, v in g._register.items()}
    arrays = {a: list(v) for a, v in ex._app_arrays[0]._arrays.items()}
    return {"ex": ex, "fault": fault, "regs": regs, "arrays": arrays, "sub": sub, "n_orig": n_orig}


def make_body(spec, falsify=False):
    text, debug = spec["text"], spec.get("debug", False)

    def body(inp):
        sym = [inp.int(f"r{k}", -2, 3) for k in range(3)]
        outcomes = [inp.bit(f"m{k}") for k in range(4)]
        site = {"template": spec["name"].split(":")[0], "debug": debug}
        try:
            A = run_one(text, False, False, sym, outcomes)
        except PathAbort as e:
            if "outcome script exhausted" in str(e):
                return []      # the original program measures more often than the outcome script is long (4): outside the bound
            raise
        if A["fault"] is not None:
            return []          # the original program faults: not a program the SDK emits
        try:
            B = run_one(text, True, debug, sym, outcomes)
        except PathAbort as e:
            if "outcome script exhausted" in str(e):
                return [Ob("same_measurements", False, dict(site, why="transpiled program measures more often than the original"))]
            raise
        except Infeasible:
            raise
        except Exception as e:  # noqa
            return [Ob("transpiler_raises", False, dict(site, exc=type(e).__name__), info=f"{type(e).__name__}: {str(e)[:200]}")]
        obs = []
        if B["fault"] is not None:
            why = "debug_pseudo_instruction_not_executable" if "unknown instr type" in str(B["fault"]) and "DebugInstruction" in str(B["fault"]) else "other"
            return [Ob("same_fault_behaviour", False, dict(site, exc=type(B["fault"]).__name__, why=why), info=str(B["fault"])[:200])]
        # classical memory: every register the original program can name (R and M banks, and Q registers it uses)
        keys = [k for k in A["regs"] if k[0] in ("R", "M")]
        ok = z3.And(*[EQ(A["regs"].get(k), B["regs"].get(k)) for k in keys]) if keys else z3.BoolVal(True)
        if falsify:
            ok = z3.And(ok, z3.BoolVal(False))
        obs.append(Ob("same_classical_registers", ok, site))
        obs.append(Ob("same_arrays", z3.And(z3.BoolVal(set(A["arrays"]) == set(B["arrays"])),
                                              *[EQ(A["arrays"][a], B["arrays"].get(a)) for a in A["arrays"]]), site))
        obs.append(Ob("same_measurements", [m for _p, m in A["ex"].meas_log] == [m for _p, m in B["ex"].meas_log]
                      and [p for p, _m in A["ex"].meas_log] == [p for p, _m in B["ex"].meas_log], site))
        obs.append(Ob("controlled_rotations_driven_by_electron", not B["ex"].bad_control, site, info={"bad": B["ex"].bad_control[:3]}))
        st = cy.LraStats()
        k, w = cy.equal_up_to_phase_fast(B["ex"].U, A["ex"].U, st)
        for key in ("queries", "sat", "unsat", "unknown"):
            LRA[key] += getattr(st, key)
        LRA["solver_s"] += st.solver_s
        if w == "unknown":
            raise PathAbort("LRA unknown")
        obs.append(Ob("same_quantum_state_up_to_phase", k is not None, site, info={"phase_zeta_power": k}))
        # structure: non-gate instructions appear once, in order
        orig = parse_text_subroutine(HDR + text)
        nongate = [i.mnemonic for i in orig.instructions if i.mnemonic not in GATE_MNEMONICS]
        got = [i.mnemonic for i in B["sub"].instructions if i.mnemonic not in NV_GATE_MNEMONICS and not i.__class__.__name__ == "DebugInstruction"]
        # the transpiler may add `set` of scratch Q registers and one trailing no-op `set C15`
        it = iter(got)
        in_order = all(any(x == y for y in it) for x in nongate)
        extra = [m for m in got if m != "set"]
        obs.append(Ob("non_gate_instructions_kept_in_order", in_order and sorted(extra) == sorted(m for m in nongate if m != "set"), site))
        return obs

    return body


GATE_MNEMONICS = {"x", "y", "z", "h", "k", "s", "t", "rot_x", "rot_y", "rot_z", "cnot", "cphase", "mov"}
NV_GATE_MNEMONICS = {"rot_x", "rot_y", "rot_z", "crot_x", "crot_y"}
G1 = ["x", "y", "z", "h", "k", "s", "t", "rot_x Q0 8 4", "rot_y Q0 3 2", "rot_z Q0 1 0", "rot_x Q0 5 3"]
G2 = ["cnot", "cphase"]


def g1(g, reg="Q0"):
    return (g.replace("Q0", reg) if " " in g else f"{g} {reg}")


def templates(tier, seed):
    T = []
    rnd = random.Random(seed)
    # single gates on every qubit
    for g in G1:
        for v in range(NQ):
            T.append((f"single:{g}@{v}", f"set Q0 {v}\n{g1(g)}\n"))
    # two-qubit gates, every placement
    for g in G2:
        for a, b in itertools.permutations(range(NQ), 2):
            T.append((f"two:{g}@{a}{b}", f"set Q0 {a}\nset Q1 {b}\n{g} Q0 Q1\n"))
    placements = list(itertools.permutations(range(NQ), 2))
    sel = placements if tier == "thorough" else [(0, 1), (1, 0), (1, 2)]
    for g in G2:
        for a, b in sel:
            core_ = f"set Q0 {a}\nset Q1 {b}\n"
            # conditional across an expanded gate (branch taken or not: symbolic register)
            T.append((f"skip:{g}@{a}{b}", core_ + f"set R0 77770\nbeq R0 0 SKIP\n{g} Q0 Q1\nh Q0\nSKIP:\nx Q1\nset R1 5\n"))
            # loop around expanded gates, label at the very end
            T.append((f"loop:{g}@{a}{b}", core_ + f"set R0 0\nLOOP:\nbeq R0 2 END\n{g} Q0 Q1\nt Q1\nadd R0 R0 1\njmp LOOP\nEND:\n"))
            # branch to a label just past the end
            T.append((f"endlabel:{g}@{a}{b}", core_ + f"set R0 77770\nbnz R0 END\nz Q0\n{g} Q0 Q1\nEND:\n"))
            # measurement result steers a later gate
            T.append((f"meas:{g}@{a}{b}", core_ + f"h Q0\n{g} Q0 Q1\nmeas Q0 M0\nbez M0 END\nx Q1\nEND:\nset R2 9\n"))
            # backward jump target is the expansion itself
            T.append((f"back:{g}@{a}{b}", core_ + f"set R0 77770\nAGAIN:\n{g} Q0 Q1\nadd R0 R0 1\nblt R0 2 AGAIN\nk Q0\n"))
    # registers re-written between gates (the decomposition must follow the register's current value)
    T.append(("rewrite:cnot", "set Q0 0\nset Q1 1\ncnot Q0 Q1\nset Q0 2\ncnot Q1 Q0\nset Q1 0\ncphase Q0 Q1\n"))
    # the same kind of gate twice with the electron held in a different register the second time (per-gate state must not be reused)
    T.append(("rewrite:two_ce", "set Q0 1\nset Q1 0\ncnot Q0 Q1\nset Q1 2\nset Q0 0\ncnot Q1 Q0\n"))
    T.append(("rewrite:two_ec", "set Q0 0\nset Q1 1\ncnot Q0 Q1\nset Q1 0\nset Q0 2\ncnot Q1 Q0\n"))
    T.append(("rewrite:two_cphase", "set Q0 1\nset Q1 0\ncphase Q0 Q1\nset Q1 2\nset Q0 0\ncphase Q1 Q0\nh Q0\n"))
    T.append(("rewrite:two_cc", "set Q1 1\nset Q2 2\ncnot Q1 Q2\nset Q0 1\nset Q1 2\ncnot Q1 Q0\n"))
    # a register that was set before a carbon-carbon gate but is first USED after it (it must not be taken as the scratch register)
    T.append(("rewrite:set_unused", "set Q0 1\nset Q1 1\nset Q2 2\ncnot Q1 Q2\nx Q0\n"))
    T.append(("rewrite:set_unused2", "set Q2 2\nset Q0 2\nset Q1 1\ncphase Q0 Q1\nh Q2\n"))
    T.append(("rewrite:scratch", "set Q0 1\nset Q1 2\ncnot Q0 Q1\nset Q2 0\nh Q2\ncphase Q1 Q0\nx Q2\n"))
    T.append(("rewrite:two_cc", "set Q1 1\nset Q2 2\ncnot Q1 Q2\nset Q0 2\nx Q0\ncphase Q2 Q1\ny Q0\n"))
    # the same `set` inside a block that may be skipped and right after it; a loop body that starts with the pre-loop value and
    # changes the register later (register contents are not a linear function of the program text)
    for v, w in ((0, 1), (1, 2), (2, 0)):
        T.append((f"setskip:{v}{w}", f"set Q0 {v}\nset R0 77770\nbeq R0 0 SKIP\nset Q0 {w}\nx Q0\nSKIP:\nset Q0 {w}\nh Q0\nset Q0 {v}\nt Q0\n"))
        T.append((f"setloop:{v}{w}", f"set Q0 {v}\nset R0 0\nLOOP:\nbeq R0 2 END\nset Q0 {v}\nh Q0\nset Q0 {w}\nx Q0\nadd R0 R0 1\njmp LOOP\nEND:\nset Q0 {w}\nz Q0\n"))
        T.append((f"setskip2:{v}{w}", f"set Q0 {v}\nset Q1 {w}\nset R0 77770\nbne R0 0 SKIP\nset Q1 {v}\nset Q0 {w}\ncnot Q0 Q1\nSKIP:\nset Q0 {w}\nset Q1 {v}\ncphase Q0 Q1\n"))
    # unconditional jumps whose target lies behind expanded gates (forward over a block, and a loop head that follows a gate)
    for g in ("h", "cnot", "cphase"):
        gl = f"{g} Q0 Q1" if g != "h" else "h Q0"
        for a, b in ((0, 1), (1, 2)):
            T.append((f"jmpfwd:{g}@{a}{b}", f"set Q0 {a}\nset Q1 {b}\n{gl}\njmp OVER\nx Q0\nOVER:\ny Q1\n{gl}\n"))
            T.append((f"jmploop:{g}@{a}{b}", f"set Q0 {a}\nset Q1 {b}\n{gl}\nset R0 0\nHEAD:\nbeq R0 2 END\nt Q1\n{gl}\nadd R0 R0 1\njmp HEAD\nEND:\nz Q0\n"))
    # many carbon-carbon gates in one subroutine (scratch registers must be reusable: there are only 16 Q registers)
    T.append(("many_cc:16", "set Q0 1\nset Q1 2\n" + "".join(("cnot Q0 Q1\n" if i % 3 else "cphase Q1 Q0\n") for i in range(16)) + "h Q0\n"))
    # a loop whose head is the very first instruction of the subroutine (branch / jump target 0), driven by measurement outcomes
    for v in range(NQ):
        T.append((f"loop0:h@{v}", f"TOP:\nset Q0 {v}\nh Q0\nmeas Q0 M0\nbnz M0 TOP\nset Q0 {v}\nx Q0\n"))
        T.append((f"loop0:jmp@{v}", f"TOP:\nset Q0 {v}\nt Q0\nh Q0\nmeas Q0 M0\nbez M0 END\njmp TOP\nEND:\nh Q0\n"))
    for a, b in ((0, 1), (1, 2), (2, 0)):
        T.append((f"loop0:cnot@{a}{b}", f"TOP:\nset Q0 {a}\nset Q1 {b}\ncnot Q0 Q1\nmeas Q1 M0\nbnz M0 TOP\nz Q0\n"))
    # Q register written by load (recorded finding: the transpiler only tracks `set`)
    T.append(("load:single", "set R0 1\narray R0 @0\nset R1 0\nset R2 1\nstore R2 @0[R1]\nload Q0 @0[R1]\nh Q0\n"))
    T.append(("load:two", "set R0 1\narray R0 @0\nset R1 0\nset R2 2\nstore R2 @0[R1]\nset Q0 1\nload Q1 @0[R1]\ncnot Q0 Q1\n"))
    T.append(("load:scratch", "set R0 1\narray R0 @0\nset R1 0\nset R2 2\nstore R2 @0[R1]\nload Q0 @0[R1]\nset Q1 1\nset Q2 2\ncnot Q1 Q2\nx Q0\n"))
    if tier == "thorough":
        for _ in range(400):
            a, b = rnd.choice(placements)
            c, d = rnd.choice(placements)
            gA, gB, gC = rnd.choice(G2), rnd.choice(G1), rnd.choice(G2)
            T.append((f"random:{gA}{a}{b}{gC}{c}{d}", f"set Q0 {a}\nset Q1 {b}\nset R0 77770\nbge R0 1 MID\n{gA} Q0 Q1\nMID:\n{g1(gB, 'Q1')}\n"
                      f"set Q0 {c}\nset Q1 {d}\n{gC} Q0 Q1\nmeas Q1 M1\nbnz M1 END\n{g1(rnd.choice(G1))}\nEND:\n"))
    specs = []
    for name, text in T:
        specs.append({"name": name, "text": text, "debug": False})
    for name, text in T[::7]:
        specs.append({"name": name, "text": text, "debug": True})
    return specs


def work(spec):
    for k in LRA:
        LRA[k] = 0 if k != "solver_s" else 0.0
    ex = Explorer(max_paths=500, budget_s=600)
    ex.run(make_body(spec))
    ex.stats.q_sat += LRA["sat"]
    ex.stats.q_unsat += LRA["unsat"]
    ex.stats.q_unknown += LRA["unknown"]
    ex.stats.solver_s += LRA["solver_s"]
    res = worker_result(ex, samples=[{"template": spec["name"], "debug": spec["debug"], "paths": ex.stats.paths}])
    for c in res["cexs"]:
        c["info"] = {"spec": spec, "detail": c["info"]}
    return res


def replay(harness, cex):
    spec = cex["info"]["spec"]
    res = run_concrete(make_body(spec), cex["values"])
    bad = [(lab, info) for lab, ok, site, info in res if not ok and lab == cex["label"]]
    allbad = [(lab, info) for lab, ok, site, info in res if not ok]
    return bool(bad), f"concrete run original vs transpiled (exact amplitudes): failing {allbad}; template {spec['name']} debug={spec['debug']}"


def main(tier, seed):
    rep = Report(PID, tier, seed,
                 "vanilla subroutines and their real NV transpilation are both executed on an exact state-vector executor from the same "
                 "arbitrary quantum state (free real coordinates), symbolic registers and symbolic measurement script; z3 decides per path "
                 "equality of classical memory (LIA) and of the final states up to a global phase (QF_LRA)")
    specs = templates(tier, seed)
    rep.bounds = [f"{len(specs)} subroutine templates over 3 qubits (electron + 2 carbons): every single-qubit gate / rotation on every qubit, "
                  "CNOT / CPHASE in every placement, conditionals, loops with an end label, branches past the end, measurement-steered gates, "
                  "backward jumps into an expansion, Q registers re-written between gates, Q registers written by load; debug off and (for a "
                  "seventh of the templates) on" + ("; 400 seeded composite programs" if tier == "thorough" else ""),
                  "register contents for branch conditions symbolic (-2..3), four measurement outcomes symbolic, quantum state arbitrary"]
    rep.outside = ["more than 2 carbons", "programs that measure more than 4 times on some path (outcome scripts have 4 symbolic bits)", "rotation operands other than the listed dyadic ones inside programs (arbitrary n, d are C07 (b))",
                   "init on a live qubit (non-unitary reset)"]
    rep.stubs = ["StateVecExecutor / vf/cyclo.py operator semantics; the three qubits are allocated by a first subroutine, then the state is arbitrary"]
    for r in pmap(work, specs):
        rep.merge_worker("programs", r)
    rep.section("programs", None, templates=len(specs))
    ex = Explorer(max_paths=5)
    ex.run(make_body(specs[0], falsify=True))
    rep.witness("classical registers with falsified oracle", any(c.label == "same_classical_registers" for c in ex.cexs))

    def one():
        Explorer(max_paths=6).run(make_body([s for s in specs if s["name"].startswith("meas:cnot@12")][0]))
    rep.functions_encoded |= trace_functions(one)
    return rep.finish(replay)
