"""C18 -- thread sockets deliver every message once and in order under any schedule (PARTIAL claim).

Endpoint scripts run in real threads, but a baton lets exactly one run at a time.  Control returns to the
scheduler (a) at every entry of a _SocketHub method, (b) at every `sleep` of the hub's polling loops
(`sleep` / `timer` of socket_hub are replaced by stubs: virtual clock) and (c), with a bounded number of
pre-emptions, at every executed LINE of the hub's methods (sys.settrace).  At each hand-over the next
thread is an explorer choice point, so every interleaving inside the bound is one path, deterministically
replayable from its choice vector.  Obligations per path are concrete: per direction and socket id the
received sequence equals the sent one, non-blocking receive on an empty channel raises, endpoints find
each other whichever side starts first.

What this is NOT: no SMT query is involved -- thread schedules are not an input of any function that
could be made a solver variable; the schedule vector is enumerated exhaustively by the explorer inside the
stated bounds (hub-call / sleep granularity completely; line granularity with at most 1 (thorough 2)
pre-emptions).  See MANIFEST level_note and DESIGN.md.
"""
import sys
import threading
import weakref
import time

from ..common import Report, pmap, trace_functions, worker_result
from ..symx import Explorer, Infeasible, Ob, PathAbort, run_concrete

import netqasm.sdk.classical_communication.broadcast_channel as bcmod
import netqasm.sdk.classical_communication.thread_socket.socket_hub as hubmod
from netqasm.sdk.classical_communication.message import StructuredMessage
from netqasm.sdk.classical_communication.thread_socket.socket import StorageThreadSocket, ThreadSocket

PID = "C18"
HUB_FILE = hubmod.__file__
MAX_STEPS = 1500
SPIN = 6
YIELD_AT = ("send", "recv", "connect", "disconnect", "_wait_for_remote", "is_connected")


class Abort(BaseException):
    """raised inside a worker thread to unwind it when the schedule is abandoned"""


class SchedLock:
    """stands in for _SocketHub._lock: a thread that finds it taken hands the baton back until it is free"""

    def __init__(self, sched):
        self.sched = sched
        self.owner = None

    def __enter__(self):
        w = _worker_of(self.sched)
        if w is not None and not self.sched.aborting:
            while self.owner is not None and self.owner is not w:
                w.blocked_on = self
                w.yp("lock")
            w.blocked_on = None
            self.owner = w
        return self

    def __exit__(self, *a):
        w = _worker_of(self.sched)
        if w is None or self.owner is w:
            self.owner = None
        return False

    acquire = lambda self, *a, **k: self.__enter__() is not None
    release = lambda self: self.__exit__()


class Worker:
    def __init__(self, name, fn, sched):
        self.name, self.fn, self.sched = name, fn, sched
        self.go = threading.Event()
        self.done = False
        self.error = None
        self.result = {}
        self.last_kind = "start"
        self.blocked_on = None
        self.join_on = None
        self.same, self.last_call_sig = 0, None
        self.prev_sleep = None
        self.sleep_sig = None      # (code location, hub state) at the last sleep; None when not sleeping
        self.thread = threading.Thread(target=self._run, daemon=True)

    def _run(self):
        self.go.wait()
        self.go.clear()
        if self.sched.aborting:
            self.done = True
            return
        sys.settrace(self._trace)
        try:
            self.fn(self)
        except Abort:
            pass
        except BaseException as e:  # noqa
            self.error = e
        finally:
            sys.settrace(None)
            self.done = True
            self.last_kind = "done"
            self.sched.back.set()

    # control returns to the scheduler
    def yp(self, kind, loc=None):
        if self.sched.aborting:
            if kind == "sleep":
                raise Abort()
            return
        if kind == "call":
            # a thread that keeps entering the hub while nothing changes is busy-waiting (BroadcastChannel.recv has no sleep):
            # from the SPIN-th identical visit on it is treated like a sleeping poller
            sig = (loc, self.sched.hub_sig())
            self.same = self.same + 1 if sig == self.last_call_sig else 0
            self.last_call_sig = sig
            if self.same >= SPIN:
                kind = "sleep"
        elif kind != "line":
            self.same, self.last_call_sig = 0, None      # (statement-level yields in between do not interrupt a busy wait)
        self.last_kind = kind
        if kind == "sleep":
            # stuck = a whole poll iteration ran from the previous sleep to this one while nobody changed the hub state
            here = (loc, self.sched.version_now())
            self.sleep_sig = (loc, self.sched.hub_sig()) if here == self.prev_sleep else None
            self.prev_sleep = here
        else:
            self.sleep_sig = None
            if kind != "lock":
                self.prev_sleep = None if kind != "line" and kind != "call" else self.prev_sleep
        self.sched.back.set()
        self.go.wait()
        self.go.clear()
        if self.sched.aborting and kind == "sleep":
            raise Abort()

    def join(self, name):
        """script primitive: wait until the named endpoint's script has ended (keeps this endpoint's sockets alive meanwhile)"""
        self.join_on = next(w for w in self.sched.workers if w.name == name)
        while not self.join_on.done:
            self.yp("join")
        self.join_on = None

    def _trace(self, frame, event, arg):
        if self.sched.aborting or frame.f_code.co_filename != HUB_FILE:
            return None
        if event == "call" and frame.f_code.co_name in YIELD_AT:
            self.yp("call", frame.f_code.co_name)
            return self._trace_lines if self.sched.line_level and (self.sched.line_level is True or frame.f_code.co_name in self.sched.line_level) else None
        return None

    def _trace_lines(self, frame, event, arg):
        if event == "line" and not self.sched.aborting:
            self.yp("line")
        return self._trace_lines


class Sched:
    """Baton scheduler with pre-emption bounding (Musuvathi & Qadeer): a switch away from a thread that could continue costs one
    pre-emption; switches at blocking points (poll sleep, taken lock, thread end) are free.  A thread sleeping in a polling loop
    is not scheduled again until the hub state it polls has changed (its next poll would read the same state), unless it polls
    with a timeout -- then virtual time advances."""

    def __init__(self, inp, line_level, preemptions, timeouts=False):
        self.inp = inp
        self.line_level = line_level
        self.preempt_left = preemptions
        self.timeouts = timeouts
        self.back = threading.Event()
        self.workers = []
        self.aborting = False
        self.clock = 0.0
        self.steps = 0
        self.current = None
        self.lock = SchedLock(self)
        self.log = []
        self.version, self._last_sig = 0, None
        self.sockets = weakref.WeakSet()
        self.watch = []     # extra state the polls may depend on (callback storages)

    def add(self, name, fn):
        w = Worker(name, fn, self)
        self.workers.append(w)
        return w

    def hub_sig(self):
        h = hubmod._socket_hub
        return (tuple(sorted(h._open_sockets)), tuple(sorted(h._remote_sockets)), tuple(sorted((k, len(v)) for k, v in h._messages.items() if v)),
                tuple(sorted(h._recv_callbacks)), tuple(len(x) for x in self.watch))

    def version_now(self):
        sig = self.hub_sig()
        if sig != self._last_sig:
            self._last_sig = sig
            self.version += 1
        return self.version

    def eligible(self, w):
        if w.done:
            return False
        if w.last_kind == "lock":
            return w.blocked_on is None or w.blocked_on.owner is None
        if w.last_kind == "join":
            return w.join_on is None or w.join_on.done
        if w.last_kind == "sleep":
            return w.sleep_sig is None or w.sleep_sig[1] != self.hub_sig()
        return True

    def run(self):
        """returns 'done' | 'deadlock' | 'livelock'"""
        for w in self.workers:
            w.thread.start()
        try:
            while True:
                alive = [w for w in self.workers if not w.done]
                if not alive:
                    return "done"
                cands = [w for w in alive if self.eligible(w)]
                forced_time = False
                if not cands:
                    if self.timeouts and any(w.last_kind == "sleep" for w in alive):
                        cands = [w for w in alive if w.last_kind == "sleep"][:1]     # let virtual time pass (no choice involved)
                        forced_time = True
                    else:
                        self.log.append(("stuck", [(w.name, w.last_kind, w.sleep_sig, getattr(w.blocked_on, "owner", None) and w.blocked_on.owner.name) for w in alive], self.hub_sig()))
                        return "deadlock"
                self.version_now()
                self.steps += 1
                if self.steps > MAX_STEPS:
                    return "livelock"
                cur = self.current
                if forced_time:
                    alive_sleepers = [w for w in alive if w.last_kind == "sleep"]
                    nxt = alive_sleepers[self.steps % len(alive_sleepers)]
                elif cur is not None and cur in cands and cur.last_kind in ("call", "line"):
                    others = [w for w in cands if w is not cur]
                    if self.preempt_left > 0 and others:
                        k = self.inp.choice(f"s{self.steps}", 1 + len(others))
                        nxt = cur if k == 0 else others[k - 1]
                        if k != 0:
                            self.preempt_left -= 1
                    else:
                        nxt = cur
                elif len(cands) == 1:
                    nxt = cands[0]
                else:
                    nxt = cands[self.inp.choice(f"s{self.steps}", len(cands))]
                if nxt.last_kind == "sleep":
                    self.clock += hubmod._SocketHub._CONNECT_SLEEP_TIME
                self.current = nxt
                self.log.append((self.steps, nxt.name, nxt.last_kind, round(self.clock, 1)))
                self.back.clear()
                nxt.go.set()
                if not self.back.wait(timeout=20):
                    raise PathAbort("worker thread did not yield within 20 s")
        finally:
            self.aborting = True
            for w in self.workers:
                w.go.set()
            for w in self.workers:
                w.thread.join(timeout=5)


class _DeadHub:
    """late finalisers of sockets left over from an explored schedule must not touch the next schedule's hub"""

    def is_connected(self, socket):
        return False

    def disconnect(self, socket):
        return None


_DEAD = _DeadHub()


def install_stubs(sched):
    old = (hubmod.sleep, hubmod.timer, bcmod.timer)

    def sleep_stub(_t):
        w = _worker_of(sched)
        if w is not None:
            f = sys._getframe(1)
            w.yp("sleep", (f.f_code.co_name, f.f_lineno))

    hubmod.sleep = sleep_stub
    hubmod.timer = bcmod.timer = lambda: sched.clock
    hub = hubmod._socket_hub
    hub._lock = sched.lock
    real_connect = type(hub).connect

    def connect(socket, timeout=None):
        sched.sockets.add(socket)
        return real_connect(hub, socket, timeout=timeout)

    hub.connect = connect
    return old


def _worker_of(sched):
    t = threading.current_thread()
    for w in sched.workers:
        if w.thread is t:
            return w
    return None


# ----------------------------------------------------------------------------- scenarios

def scenario(spec):
    """returns (list of (name, fn(worker)), check(workers) -> list of (label, ok, info))"""
    kind = spec["scenario"]
    if kind == "one_way":
        n = spec.get("n", 2)
        msgs = [f"m{i}" for i in range(n)]

        def alice(w):
            s = ThreadSocket("alice", "bob")
            for m in msgs:
                s.send(m)
            w.result["sent"] = list(msgs)

        def bob(w):
            s = ThreadSocket("bob", "alice")
            w.result["got"] = [s.recv() for _ in msgs]

        def check(ws):
            return [("in_order_exactly_once", ws["bob"].result.get("got") == msgs, {"got": ws["bob"].result.get("got"), "sent": msgs})]
        return [("alice", alice), ("bob", bob)], check
    if kind == "two_way":
        def alice(w):
            s = ThreadSocket("alice", "bob")
            s.send("a1")
            s.send("a2")
            w.result["got"] = [s.recv()]

        def bob(w):
            s = ThreadSocket("bob", "alice")
            s.send("b1")
            w.result["got"] = [s.recv(), s.recv()]

        def check(ws):
            return [("in_order_exactly_once", ws["bob"].result.get("got") == ["a1", "a2"] and ws["alice"].result.get("got") == ["b1"],
                     {"bob": ws["bob"].result.get("got"), "alice": ws["alice"].result.get("got")})]
        return [("alice", alice), ("bob", bob)], check
    if kind == "nonblocking":
        def alice(w):
            s = ThreadSocket("alice", "bob")
            s.send("x")

        def bob(w):
            s = ThreadSocket("bob", "alice")
            got = []
            for _ in range(3):
                try:
                    got.append(s.recv(block=False))
                except RuntimeError:
                    got.append(None)
            # drain with a blocking receive if nothing arrived yet
            if "x" not in got:
                got.append(s.recv())
            w.result["got"] = got

        def check(ws):
            got = ws["bob"].result.get("got") or []
            return [("empty_reports_emptiness_no_stale_no_duplicate", [g for g in got if g is not None] == ["x"], {"got": got})]
        return [("alice", alice), ("bob", bob)], check
    if kind == "nonblocking_silent":
        # the logging-free variants of send / recv, and the structured receive, with block=False
        def alice(w):
            s = ThreadSocket("alice", "bob")
            s.send_silent("x")
            s.send_structured(StructuredMessage("h", 5))

        def bob(w):
            s = ThreadSocket("bob", "alice")
            got = []
            for _ in range(2):
                if "x" in got:
                    break           # the next message is the structured one: it must not be taken with a string receive
                try:
                    got.append(s.recv_silent(block=False))
                except RuntimeError:
                    got.append(None)
            if "x" not in got:
                got.append(s.recv_silent())
            st = None
            try:
                st = s.recv_structured(block=False)
            except RuntimeError:
                st = s.recv_structured()
            got.append((st.header, st.payload))
            w.result["got"] = got

        def check(ws):
            got = ws["bob"].result.get("got") or []
            return [("empty_reports_emptiness_no_stale_no_duplicate", [g for g in got if g is not None] == ["x", ("h", 5)], {"got": got})]
        return [("alice", alice), ("bob", bob)], check
    if kind == "nonblocking_empty":
        # nobody sends while bob asks: every non-blocking receive variant must report emptiness (not block, not return anything)
        def alice(w):
            s = ThreadSocket("alice", "bob")
            w.join("bob")
            w.result["keepalive"] = s is not None

        def bob(w):
            s = ThreadSocket("bob", "alice")
            out = []
            for fn in (s.recv, s.recv_silent, s.recv_structured):
                try:
                    out.append(("returned", repr(fn(block=False))))
                except RuntimeError:
                    out.append("empty")
            # a timeout given together with block=False changes nothing: emptiness is reported at once, not after the timeout
            for fn in (s.recv_silent,):
                try:
                    out.append(("returned", repr(fn(block=False, timeout=2.0))))
                except TimeoutError:
                    out.append("timed_out")
                except RuntimeError:
                    out.append("empty")
            w.result["got"] = out

        def check(ws):
            got = ws["bob"].result.get("got")
            return [("empty_channel_reports_emptiness", got == ["empty"] * 4, {"got": got})]
        return [("alice", alice), ("bob", bob)], check
    if kind == "callback":
        def alice(w):
            s = ThreadSocket("alice", "bob")
            s.send("c1")
            s.send("c2")

        def bob(w):
            s = StorageThreadSocket("bob", "alice")
            w.result["sock"] = s
            w.sched.watch.append(s._storage)
            w.join("alice")      # the callback socket just has to stay alive until alice is done
            w.result["got"] = list(s._storage)

        def check(ws):
            s = ws["bob"].result.get("sock")
            pend = list(hubmod._socket_hub._messages.get(("bob", "alice", 0), []))
            got = list(s._storage) if s is not None else []
            return [("callback_gets_every_message_in_order", got == ["c1", "c2"] and not pend, {"callback_storage": list(s._storage) if s else None, "queued": pend})]
        return [("alice", alice), ("bob", bob)], check
    if kind == "two_ids":
        def alice(w):
            s0 = ThreadSocket("alice", "bob", socket_id=0)
            s1 = ThreadSocket("alice", "bob", socket_id=1)
            s0.send("p0")
            s1.send("q0")
            s0.send("p1")

        def bob(w):
            s0 = ThreadSocket("bob", "alice", socket_id=0)
            s1 = ThreadSocket("bob", "alice", socket_id=1)
            w.result["got1"] = [s1.recv()]
            w.result["got0"] = [s0.recv(), s0.recv()]

        def check(ws):
            return [("per_socket_id_independent", ws["bob"].result.get("got0") == ["p0", "p1"] and ws["bob"].result.get("got1") == ["q0"],
                     dict(ws["bob"].result))]
        return [("alice", alice), ("bob", bob)], check
    if kind == "structured":
        def alice(w):
            s = ThreadSocket("alice", "bob")
            s.send_structured(StructuredMessage("h1", [1, 2]))
            s.send_structured(StructuredMessage("h2", "p"))

        def bob(w):
            s = ThreadSocket("bob", "alice")
            a, b = s.recv_structured(), s.recv_structured()
            w.result["got"] = [(a.header, a.payload), (b.header, b.payload)]

        def check(ws):
            return [("in_order_exactly_once", ws["bob"].result.get("got") == [("h1", [1, 2]), ("h2", "p")], {"got": ws["bob"].result.get("got")})]
        return [("alice", alice), ("bob", bob)], check
    if kind == "close_early":
        def alice(w):
            s = ThreadSocket("alice", "bob")
            s.send("late")
            del s

        def bob(w):
            s = ThreadSocket("bob", "alice", timeout=1.0)
            w.result["got"] = [s.recv(timeout=1.0)]

        def check(ws):
            return [("endpoints_find_each_other", ws["bob"].error is None and ws["bob"].result.get("got") == ["late"],
                     {"got": ws["bob"].result.get("got"), "error": repr(ws["bob"].error)})]
        return [("alice", alice), ("bob", bob)], check
    if kind == "reconnect_callback":
        def alice(w):
            s = ThreadSocket("alice", "bob")
            s.send("r1")
            del s
            s2 = ThreadSocket("alice", "bob")
            s2.send("r2")

        def bob(w):
            s = StorageThreadSocket("bob", "alice")
            w.result["sock"] = s
            w.sched.watch.append(s._storage)
            w.join("alice")

        def check(ws):
            s = ws["bob"].result.get("sock")
            pend = list(hubmod._socket_hub._messages.get(("bob", "alice", 0), []))
            got = list(s._storage) if s is not None else []
            return [("callback_gets_every_message_in_order", got == ["r1", "r2"] and not pend, {"callback_storage": list(s._storage) if s else None, "queued": pend})]
        return [("alice", alice), ("bob", bob)], check
    if kind == "broadcast3":
        from netqasm.sdk.classical_communication.broadcast_channel import BroadcastChannelBySockets

        class BC(BroadcastChannelBySockets):
            _socket_class = ThreadSocket

        def alice(w):
            bc = BC("alice", ["bob", "carol"])
            w.result["got"] = [bc.recv(block=True, timeout=3.0)]

        def bob(w):
            s = ThreadSocket("bob", "alice")
            w.join("alice")

        def carol(w):
            s = ThreadSocket("carol", "alice")
            s.send("hello")

        def check(ws):
            return [("broadcast_receive_finds_pending_message", ws["alice"].error is None and ws["alice"].result.get("got") == [("carol", "hello")],
                     {"got": ws["alice"].result.get("got"), "error": repr(ws["alice"].error)})]
        return [("alice", alice), ("bob", bob), ("carol", carol)], check
    raise KeyError(kind)


TIMEOUT_SCENARIOS = ("close_early", "broadcast3")


def make_body(spec):
    def body(inp):
        hubmod.reset_socket_hub()
        sched = Sched(inp, spec.get("line_level", False), spec.get("preemptions", 0), spec["scenario"] in TIMEOUT_SCENARIOS)
        old = install_stubs(sched)
        try:
            scripts, check = scenario(spec)
            for name, fn in scripts:
                sched.add(name, fn)
            outcome = sched.run()
        finally:
            hubmod.sleep, hubmod.timer, bcmod.timer = old
            hubmod._socket_hub.__dict__.pop("connect", None)
            for sock in list(sched.sockets):
                sock.__dict__["_SOCKET_HUB"] = _DEAD
        global LAST_LOG
        LAST_LOG = sched.log
        ws = {w.name: w for w in sched.workers}
        ll = spec.get("line_level")
        site = {"scenario": spec["scenario"], "granularity": "call" if not ll else "line" if ll is True else "line:" + "+".join(ll)}
        obs = [Ob("no_deadlock", outcome == "done", site, info={"outcome": outcome, "steps": sched.steps})]
        if outcome != "done":
            return obs
        errs = {w.name: repr(w.error) for w in sched.workers if w.error is not None}
        obs.append(Ob("no_endpoint_error", not errs, site, info=errs))
        for label, ok, info in check(ws):
            obs.append(Ob(label, bool(ok), site, info=info))
        return obs
    return body


def work(spec):
    ex = Explorer(max_paths=spec.get("max_paths", 60000), budget_s=spec.get("budget", 240), max_depth=400)
    ex.run(make_body(spec))
    res = worker_result(ex, samples=[dict(spec, schedules=ex.stats.paths)])
    for c in res["cexs"]:
        c["info"] = {"spec": spec, "detail": c["info"]}
    # a budget / path-bound stop is part of the stated bound for this property, not an inconclusive verdict
    res["truncated"] = [a for a in res["aborts"] if "budget" in a or "path bound" in a]
    res["aborts"] = [a for a in res["aborts"] if a not in res["truncated"]]
    return res


def replay(harness, cex):
    spec = cex["info"]["spec"]
    res = run_concrete(make_body(spec), cex["values"])
    bad = [(lab, info) for lab, ok, site, info in res if not ok and lab == cex["label"]]
    sched = [cex["values"].get(f"s{i}") for i in range(1, MAX_STEPS) if f"s{i}" in cex["values"]]
    return bool(bad), f"replayed schedule {sched} with real threads: failing {bad}"


def main(tier, seed):
    rep = Report(PID, tier, seed,
                 "controlled scheduling of real threads running the real ThreadSocket / _SocketHub code: the schedule vector is enumerated "
                 "exhaustively by the explorer's choice points at hub-call and sleep granularity, and at line granularity inside the hub "
                 "with a bounded number of pre-emptions; obligations are concrete per schedule. NO SMT query is involved (stated): thread "
                 "schedules cannot be made solver variables of the code")
    specs = []
    scen = ["one_way", "two_way", "nonblocking", "nonblocking_silent", "nonblocking_empty", "callback", "two_ids", "structured", "close_early", "reconnect_callback", "broadcast3"]
    two = [x for x in scen if x != "broadcast3"]
    th = tier == "thorough"
    pc, pl = (3, 2) if th else (2, 1)
    for x in two:
        specs.append({"scenario": x, "line_level": False, "preemptions": pc, "budget": 900 if th else 120})
        specs.append({"scenario": x, "line_level": True, "preemptions": pl, "budget": 900 if th else 120})
    specs.append({"scenario": "broadcast3", "line_level": False, "preemptions": 1 if th else 0, "budget": 1200 if th else 120, "max_paths": 200000})
    # the check-then-pop window of hub.recv against complete sends needs two pre-emptions: lines of recv only
    specs.append({"scenario": "one_way", "line_level": ("recv",), "preemptions": 2, "budget": 900 if th else 150})
    if th:
        specs.append({"scenario": "broadcast3", "line_level": True, "preemptions": 0, "budget": 900, "max_paths": 200000})
        for n in (3, 4):
            specs.append({"scenario": "one_way", "n": n, "line_level": False, "preemptions": 3, "budget": 900})
            specs.append({"scenario": "one_way", "n": n, "line_level": ("recv", "send"), "preemptions": 2, "budget": 900, "max_paths": 200000})
        specs.append({"scenario": "two_way", "line_level": ("recv", "send"), "preemptions": 3, "budget": 1200, "max_paths": 200000})
    specs.sort(key=lambda sp: -sp.get("budget", 0) - (1000 if sp.get("line_level") else 0))
    rep.bounds = [f"{len(scen)} endpoint scripts (2-3 endpoints, up to {4 if th else 2} sends/receives per direction, plain / structured / callback delivery, two socket "
                  "ids, early close, reconnect under a callback socket, broadcast channel over 3 endpoints)",
                  f"schedules: pre-emption bounded (switching away from a thread that could continue costs one pre-emption; switches at poll sleeps, taken "
                  f"locks and thread ends are free): hub-method-entry granularity with <= {pc} pre-emptions, statement granularity inside every hub method with "
                  f"<= {pl}, statement granularity inside hub.recv with <= 2; broadcast3 with <= {1 if th else 0}",
                  f"schedule length <= {MAX_STEPS} hand-overs (longer = reported as livelock); a poller whose whole iteration saw an unchanged hub is parked until "
                  f"the hub changes; a thread entering the hub {SPIN} times with nothing changed is treated as such a poller (busy wait of BroadcastChannel.recv)",
                  "a time / path budget cuts an exploration off; the schedules actually explored are reported per configuration (truncated_by_budget)"]
    rep.outside = ["pre-emption at bytecode granularity (inside one statement) and more pre-emptions than the bound", "real-time behaviour (virtual clock: 0.1 s per poll)",
                   "more than three endpoints, more than four messages per direction", "garbage-collection-time closing of sockets at arbitrary points (sockets close when "
                   "their script drops them)"]
    rep.stubs = ["`sleep` / `timer` of socket_hub and `timer` of broadcast_channel replaced (virtual clock; sleep hands the baton to the scheduler)",
                 "_SocketHub._lock replaced by a scheduler-aware lock with the same mutual exclusion", "sys.settrace in the endpoint threads (yield points)",
                 "finalisers of sockets left over from an explored schedule are detached from the hub of the next schedule"]
    truncated = 0
    for r in pmap(work, specs):
        truncated += len(r.get("truncated", []))
        rep.merge_worker("schedules", r)
    rep.section("schedules", None, scenarios=len(specs), truncated_by_budget=truncated)
    rep.extra["solver_involvement"] = "none: schedule vectors are enumerated by explorer choice points"
    ex = Explorer(max_paths=30)
    ex.run(lambda inp: [Ob("twin", False, {})] if make_body({"scenario": "one_way"})(inp) is not None else [])
    rep.witness("schedules reach the obligations", len(ex.cexs) > 0)
    rep.functions_encoded |= {"netqasm.sdk.classical_communication.thread_socket.socket_hub:_SocketHub.connect", "…socket_hub:_SocketHub._wait_for_remote",
                              "…socket_hub:_SocketHub.send", "…socket_hub:_SocketHub.recv", "…socket_hub:_SocketHub.disconnect", "…socket_hub:_SocketHub.is_connected",
                              "netqasm.sdk.classical_communication.thread_socket.socket:ThreadSocket.send/recv/send_structured/recv_structured/__del__",
                              "netqasm.sdk.classical_communication.thread_socket.socket:StorageThreadSocket.recv_callback",
                              "netqasm.sdk.classical_communication.broadcast_channel:BroadcastChannelBySockets.recv"}
    return rep.finish(replay)
