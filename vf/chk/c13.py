"""C13 -- qubit memory is safe and applications are isolated on the controller.

(a) bounded histories: every sequence (explorer choice points) of application registrations, stops,
    subroutines that allocate / free qubits or write classical memory, and keep-responses, over 2 (3)
    applications; after EVERY operation the invariants are checked on the real Executor state.
(b) inductive step: from an arbitrary invariant-satisfying state (registered applications, unit-module
    sizes, every injective virtual->physical assignment over a small pool of physical ids) every
    operation re-establishes the invariants -- which extends (a) to histories of any length.
Written values are symbolic; other applications' memory is compared before/after as z3 terms.
"""
import copy
import itertools

import z3

from ..common import Report, pmap, trace_functions, worker_result
from ..netharness import Deadlock, NetExecutor, ok_k
from ..symx import EQ, Explorer, Infeasible, Ob, PathAbort, run_concrete

from netqasm.lang.encoding import RegisterName
from netqasm.lang.parsing import parse_text_subroutine
from netqasm.sdk.shared_memory import SharedMemoryManager

PID = "C13"
HDR = "# NETQASM 1.0\n# APPID {app}\n"


def sub_text(app, kind, arg, val=None):
    if kind == "qalloc":
        return HDR.format(app=app) + f"set Q0 {arg}\nqalloc Q0\n"
    if kind == "qfree":
        return HDR.format(app=app) + f"set Q0 {arg}\nqfree Q0\n"
    if kind == "write":
        return HDR.format(app=app) + "set R0 7\nset R1 1\narray R1 @0\nset R2 0\nstore R0 @0[R2]\nret_reg R0\nret_arr @0\n"
    if kind == "epr":
        return HDR.format(app=app) + f"array 10 @5\narray 1 @6\nstore {arg} @6[0]\nrecv_epr 1 0 6 5\nwait_all @5[0:10]\n"
    raise KeyError(kind)


class World:
    """the real executor plus what the harness knows about the history"""

    def __init__(self):
        SharedMemoryManager.reset_memories()
        self.ex = NetExecutor("ctrl")
        self.registered = {}      # app -> unit size
        self.ever = set()

    def snapshot(self, app):
        ex = self.ex
        regs = {(b.name, i): v for b, g in ex._registers[app].items() for i, v in g._register.items()}
        arrays = {a: list(v) for a, v in ex._app_arrays[app]._arrays.items()}
        sm = ex._shared_memories[app]
        sregs = {(b.name, i): v for b, g in sm._registers.items() for i, v in g._register.items()}
        sarr = {a: list(v) for a, v in sm._arrays._arrays.items()}
        return {"regs": regs, "arrays": arrays, "sregs": sregs, "sarr": sarr, "unit": list(ex._qubit_unit_modules[app])}


def snap_eq(a, b):
    parts = []
    for k in ("regs", "arrays", "sregs", "sarr"):
        if set(a[k]) != set(b[k]):
            return z3.BoolVal(False)
        parts += [EQ(a[k][x], b[k][x]) for x in a[k]]
    parts.append(z3.BoolVal(a["unit"] == b["unit"]))
    return z3.And(*parts) if parts else z3.BoolVal(True)


def invariants(w: World, site, tag):
    ex = w.ex
    mapped = []
    for app, um in ex._qubit_unit_modules.items():
        mapped += [p for p in um if p is not None]
    obs = [Ob("no_two_virtual_qubits_share_a_physical_qubit", len(mapped) == len(set(mapped)), site, info=dict(tag, mapped=sorted(mapped))),
           Ob("in_use_set_equals_mapped_set", set(mapped) == set(ex._used_physical_qubit_addresses), site,
              info=dict(tag, mapped=sorted(mapped), in_use=sorted(ex._used_physical_qubit_addresses))),
           Ob("registered_apps_have_all_memories", set(ex._qubit_unit_modules) == set(w.registered) == set(ex._registers) ==
              set(ex._app_arrays) == set(ex._shared_memories), site, info=dict(tag, apps=sorted(w.registered)))]
    # the host side finds an application's shared memory through the manager: every registered application must still be there, with
    # the very object the controller writes to (another application stopping must not take it away)
    missing = [a for a in ex._shared_memories
               if SharedMemoryManager.get_shared_memory(node_name=ex._name, key=a) is not ex._shared_memories[a]]
    obs.append(Ob("host_can_reach_shared_memory_of_registered_apps", not missing, site, info=dict(tag, apps_unreachable=sorted(missing))))
    return obs


def options(w: World, napps, sizes):
    opts = []
    for a in range(napps):
        if a not in w.registered:
            for s in sizes:
                opts.append(("init", a, s))
        else:
            opts.append(("stop", a))
            um = w.ex._qubit_unit_modules.get(a, [])
            for v in range(len(um)):
                opts.append(("qalloc", a, v))
                opts.append(("qfree", a, v))
                if um[v] is None:
                    opts.append(("epr", a, v))
            opts.append(("write", a))
    return opts


def apply_op(w: World, op, inp, step, site):
    """returns list of obligations produced by this operation (isolation / lifecycle); faults of subroutines are fine"""
    ex = w.ex
    kind, a = op[0], op[1]
    obs = []
    tag = {"step": step, "op": list(op)}
    before = {b: w.snapshot(b) for b in w.registered if b != a}
    if kind == "init":
        try:
            ex.init_new_application(app_id=a, max_qubits=op[2])
            w.registered[a] = op[2]
            obs.append(Ob("application_can_be_registered", True, site))
        except (PathAbort, Infeasible):
            raise
        except Exception as e:  # noqa
            obs.append(Ob("application_can_be_registered", False, dict(site, again=a in w.ever, exc=type(e).__name__),
                          info=dict(tag, error=f"{type(e).__name__}: {str(e)[:160]}")))
            # the executor is left half-initialised: clean up the harness view so that the history can continue
            for d in (ex._qubit_unit_modules, ex._registers, ex._app_arrays, ex._shared_memories):
                d.pop(a, None)
        w.ever.add(a)
    elif kind == "stop":
        held = [p for p in ex._qubit_unit_modules[a] if p is not None]
        try:
            list(ex.stop_application(app_id=a))
        except (PathAbort, Infeasible):
            raise
        except Exception as e:  # noqa
            obs.append(Ob("stop_raises", False, dict(site, exc=type(e).__name__), info=dict(tag, error=str(e)[:160])))
        w.registered.pop(a, None)
        obs.append(Ob("stop_releases_all_qubits", not (set(held) & set(ex._used_physical_qubit_addresses)), site, info=dict(tag, held=held)))
        obs.append(Ob("stop_releases_memory", a not in ex._registers and a not in ex._app_arrays and a not in ex._shared_memories
                      and a not in ex._qubit_unit_modules, site, info=tag))
    else:
        val = inp.int(f"val{step}")
        text = sub_text(a, kind, op[2] if len(op) > 2 else None)
        if kind == "write":
            text = text.replace("set R0 7", "set R0 7")   # value patched below (parser needs a literal)
        sub = parse_text_subroutine(text)
        if kind == "write":
            from netqasm.lang.operand import Immediate
            sub.instructions[0].imm = Immediate(val)
        if kind == "epr":
            ex.deliveries.append(ok_k(ex, creator=False, purpose_id=0, remote_node_id=1, bell_state=0, create_id=val))
        try:
            list(ex.execute_subroutine(sub))
        except (PathAbort, Infeasible):
            raise
        except Deadlock as e:
            obs.append(Ob("keep_response_is_delivered", False, site, info=dict(tag, error=str(e)[:120])))
        except Exception:  # noqa  (faulting subroutines are part of the histories)
            pass
        ex.deliveries.clear()
    for b, snap in before.items():
        if b in w.registered:
            obs.append(Ob("other_application_untouched", snap_eq(snap, w.snapshot(b)), site, info=dict(tag, other=b)))
    return obs


def make_history_body(spec, falsify=False):
    napps, sizes, depth, first = spec["napps"], spec["sizes"], spec["depth"], spec.get("first")

    def body(inp):
        w = World()
        site = {"mode": "history"}
        obs = []
        hist = []
        for step in range(depth):
            opts = options(w, napps, sizes)
            if step == 0 and first is not None:
                op = tuple(first)
            else:
                op = opts[inp.choice(f"op{step}", len(opts))]
            hist.append(op)
            obs += apply_op(w, op, inp, step, site)
            obs += invariants(w, site, {"step": step, "history": [list(o) for o in hist]})
        if falsify:
            obs.append(Ob("no_two_virtual_qubits_share_a_physical_qubit", False, site))
        return obs

    return body


def all_states(napps, sizes, pool):
    """every invariant-satisfying controller state: registered apps, unit sizes, injective maps into `pool` physical ids"""
    out = []
    for regmask in itertools.product((False, True), repeat=napps):
        apps = [a for a in range(napps) if regmask[a]]
        for szs in itertools.product(sizes, repeat=len(apps)):
            slots = [(a, v) for a, s in zip(apps, szs) for v in range(s)]
            for assign in itertools.product([None] + list(range(pool)), repeat=len(slots)):
                used = [p for p in assign if p is not None]
                if len(used) != len(set(used)):
                    continue
                out.append({"apps": apps, "sizes": list(szs), "assign": list(assign)})
    return out


def make_step_body(spec):
    """(b) one operation from an arbitrary invariant-satisfying state"""
    st = spec["state"]
    napps, sizes = spec["napps"], spec["sizes"]

    def body(inp):
        w = World()
        ex = w.ex
        i = 0
        for a, s in zip(st["apps"], st["sizes"]):
            ex.init_new_application(app_id=a, max_qubits=s)
            w.registered[a] = s
            w.ever.add(a)
            for v in range(s):
                p = st["assign"][i]
                i += 1
                if p is not None:
                    ex._qubit_unit_modules[a][v] = p
                    ex._used_physical_qubit_addresses.add(p)
            # arbitrary classical contents
            ex._registers[a][RegisterName.R][0] = inp.int(f"r_{a}")
            ex._app_arrays[a]._arrays[0] = [inp.int(f"arr_{a}")]
        site = {"mode": "step"}
        opts = options(w, napps, sizes)
        op = opts[inp.choice("op", len(opts))]
        obs = apply_op(w, op, inp, 0, site)
        obs += invariants(w, site, {"state": st, "op": list(op)})
        return obs

    return body


def make_concurrent_body(spec):
    """(c) subroutines of different applications suspended at wait instructions and resumed in every order"""
    napps = spec["napps"]

    def body(inp):
        from .c12 import CoExecutor
        from netqasm.qlink_compat import LinkLayerOKTypeK, ReturnType
        SharedMemoryManager.reset_memories()
        ex = CoExecutor("ctrl")
        site = {"mode": "concurrent"}
        tags = {}
        gens = {}
        state = {}          # app -> "new" | "blocked" | "ready" | "done"
        delivered = set()
        promised = set()
        for a in range(napps):
            ex.init_new_application(app_id=a, max_qubits=1)
            tags[a] = inp.int(f"tag{a}")
            state[a] = "new"
        subs = {}
        for a in range(napps):
            text = HDR.format(app=a) + f"array 10 @5\narray 1 @6\nstore 0 @6[0]\nrecv_epr 1 {a} 6 5\nwait_all @5[0:10]\nset R1 7\nret_reg R1\n"
            sub = parse_text_subroutine(text)
            from netqasm.lang.operand import Immediate
            for ins in sub.instructions:
                if ins.mnemonic == "set" and ins.reg.index == 1 and ins.reg.name == RegisterName.R:
                    ins.imm = Immediate(tags[a])
            subs[a] = sub
        steps = 0
        try:
            while any(v != "done" for v in state.values()):
                steps += 1
                if steps > 60:
                    return []
                opts = []
                for a in range(napps):
                    if state[a] in ("new", "ready"):
                        opts.append(("run", a))
                    if a not in delivered:
                        opts.append(("deliver", a))
                if not opts:
                    return [Ob("subroutines_complete", False, site, info={"state": dict(state)})]
                op = opts[inp.choice(f"c{steps}", len(opts))]
                ex._handle_pending_epr_responses()
                a = op[1]
                if op[0] == "deliver":
                    delivered.add(a)
                    phys = ex._get_unused_physical_qubit()      # reserved by the executor's own helper
                    promised.add(phys)
                    ex._handle_epr_response(LinkLayerOKTypeK(type=ReturnType.OK_K, create_id=0, logical_qubit_id=phys, directionality_flag=1,
                                                             sequence_number=0, purpose_id=a, remote_node_id=1, goodness=0, goodness_time=0,
                                                             bell_state=0))
                    if state[a] == "blocked":
                        state[a] = "ready"
                else:
                    if state[a] == "new":
                        gens[a] = ex.execute_subroutine(subs[a])
                    # run this subroutine until it blocks at its wait or finishes
                    blocked_polls = 0
                    while True:
                        try:
                            ev = next(gens[a])
                        except StopIteration:
                            state[a] = "done"
                            break
                        if ev is not None and ev[0] == "blocked":
                            ex._handle_pending_epr_responses()
                            blocked_polls += 1
                            if blocked_polls > 1:
                                state[a] = "ready" if a in delivered else "blocked"
                                break
        except (PathAbort, Infeasible):
            raise
        except Exception as e:  # noqa
            return [Ob("controller_raises", False, dict(site, exc=type(e).__name__), info=f"{type(e).__name__}: {str(e)[:200]}")]
        obs = []
        for a in range(napps):
            got = ex._registers[a][RegisterName.R]._register.get(1)
            sh = ex._shared_memories[a]._registers[RegisterName.R]._register.get(1)
            obs.append(Ob("subroutine_writes_its_own_application", z3.And(EQ(got, tags[a]), EQ(sh, tags[a])), site, info={"app": a}))
        obs += invariants(type("W", (), {"ex": ex, "registered": {a: 1 for a in range(napps)}})(), site, {"steps": steps})
        return obs

    return body


def make_stepwise_body(spec):
    """(d) two applications whose subroutines are advanced one generator step at a time in every order: the executor yields INSIDE qalloc /
    qfree (the reserve / clear hooks of the back end), so bookkeeping done around those yields must not lose the other application's update"""
    def body(inp):
        from .c12 import CoExecutor
        SharedMemoryManager.reset_memories()
        ex = CoExecutor("ctrl")
        site = {"mode": "stepwise"}
        texts = {0: "set Q0 0\nqalloc Q0\nqfree Q0\nset Q0 0\nqalloc Q0\n", 1: "set Q0 0\nqalloc Q0\nset Q1 1\nqalloc Q1\nqfree Q0\n"}
        gens = {}
        for a in (0, 1):
            ex.init_new_application(app_id=a, max_qubits=2)
            gens[a] = ex.execute_subroutine(parse_text_subroutine(HDR.format(app=a) + texts[a]))
        alive = [0, 1]
        steps = 0
        try:
            while alive:
                steps += 1
                if steps > 80:
                    return []
                a = alive[inp.choice(f"w{steps}", len(alive))] if len(alive) > 1 else alive[0]
                try:
                    next(gens[a])
                except StopIteration:
                    alive.remove(a)
        except (PathAbort, Infeasible):
            raise
        except Exception as e:  # noqa
            return [Ob("controller_raises", False, dict(site, exc=type(e).__name__), info=f"{type(e).__name__}: {str(e)[:200]}")]
        return invariants(type("W", (), {"ex": ex, "registered": {0: 2, 1: 2}})(), site, {"steps": steps})

    return body


def body_of(spec):
    if spec["kind"] == "stepwise":
        return make_stepwise_body(spec)
    if spec["kind"] == "concurrent":
        return make_concurrent_body(spec)
    return make_history_body(spec) if spec["kind"] == "history" else make_step_body(spec)


def work(spec):
    # caps per work item: the unchanged tree needs a few thousand paths per item; a change that makes responses pile up multiplies the
    # histories -- then the item stops as inconclusive after the cap instead of running for a quarter of an hour
    big = spec.get("tier") == "thorough"
    ex = Explorer(max_paths=spec.get("max_paths", 400000 if big else 40000), budget_s=1500 if big else 150, max_depth=2000)
    ex.run(body_of(spec))
    res = worker_result(ex, samples=[{"kind": spec["kind"], "first": spec.get("first"), "state": spec.get("state"), "paths": ex.stats.paths}])
    for c in res["cexs"]:
        c["info"] = {"spec": spec, "detail": c["info"]}
    if spec.get("hunt"):
        # an item that is explored up to a stated number of schedules only: stopping there is its bound, not an inconclusive verdict
        res["truncated"] = [a for a in res["aborts"] if "path bound" in a or "budget" in a]
        res["aborts"] = [a for a in res["aborts"] if a not in res["truncated"]]
        res["hunt_paths"] = ex.stats.paths
    return res


def replay(harness, cex):
    spec = cex["info"]["spec"]
    res = run_concrete(body_of(spec), cex["values"])
    bad = [(lab, info) for lab, ok, site, info in res if not ok and lab == cex["label"]]
    allbad = [(lab, info) for lab, ok, site, info in res if not ok]
    return bool(bad), f"replayed on the real Executor: failing {allbad[:3]}"


def main(tier, seed):
    rep = Report(PID, tier, seed,
                 "bounded exploration of controller histories by explorer choice points on the real Executor (init/stop application, "
                 "subroutines with qalloc/qfree/classical writes, keep responses) with the invariants checked after every operation, plus "
                 "the inductive step from every invariant-satisfying state; written values are symbolic and other applications' memory "
                 "is compared before/after as z3 terms")
    napps = 2
    sizes = [1, 2]
    depth = 5 if tier == "thorough" else 4
    specs = []
    w0 = World()
    for op in options(w0, napps, sizes):
        specs.append({"kind": "history", "napps": napps, "sizes": sizes, "depth": depth, "first": list(op)})
    if tier == "thorough":
        for op in options(World(), 3, [1]):
            specs.append({"kind": "history", "napps": 3, "sizes": [1, 2], "depth": 4, "first": list(op)})
    states = all_states(napps, sizes, 4 if tier == "thorough" else 3)
    for st in states:
        specs.append({"kind": "step", "napps": napps, "sizes": sizes, "state": st})
    specs.append({"kind": "concurrent", "napps": 3})
    specs.append({"kind": "stepwise"})
    if tier == "thorough":
        specs.append({"kind": "concurrent", "napps": 4, "hunt": True, "max_paths": 120000})
    for sp_ in specs:
        sp_["tier"] = tier
    rep.bounds = ["(d) 2 applications (allocate, free, allocate again / allocate two, free one) advanced one executor step at a time in every order, "
                  "including the yields inside qalloc and qfree",
                  "(c) 3 applications whose subroutines suspend at a wait instruction: every order of starting, delivering and resuming"
                  + ("; 4 applications: the first 120000 orders only (time-boxed, not exhaustive; count in `hunting`)" if tier == "thorough" else ""),
                  f"(a) all histories of {depth} operations over {napps} applications (unit modules of 1..2 qubits), operations: init, stop, "
                  "qalloc v, qfree v, classical write + ret_reg/ret_arr, recv_epr + keep response for a free virtual qubit; faulting "
                  "subroutines included" + ("; 3 applications to depth 4" if tier == "thorough" else ""),
                  f"(b) inductive step from each of {len(states)} invariant-satisfying states (every registration pattern, unit sizes, injective "
                  f"virtual->physical maps over {4 if tier == 'thorough' else 3} physical ids) x every enabled operation"]
    rep.outside = ["unit modules larger than 2 qubits per application in (a)/(b) (the code paths do not depend on the size)",
                   "keep responses naming a physical qubit that is in use (excluded: link-layer contract)", "long random walks (replaced by the inductive step)"]
    rep.stubs = ["NetExecutor / RecStack harness; keep responses are delivered at the wait point with the lowest unused physical id"]
    for r in pmap(work, specs, chunksize=4):
        rep.merge_worker("memory", r)
        if r.get("hunt_paths") is not None:
            rep.extra.setdefault("hunting", []).append({"item": "concurrent, 4 applications", "schedules_explored": r["hunt_paths"], "stopped_by_bound": bool(r.get("truncated"))})
    rep.section("memory", None, specs=len(specs))
    ex = Explorer(max_paths=30)
    ex.run(make_history_body({"kind": "history", "napps": 1, "sizes": [1], "depth": 1}, falsify=True))
    rep.witness("injectivity with falsified oracle", len(ex.cexs) > 0)

    def one():
        Explorer(max_paths=40).run(make_history_body({"kind": "history", "napps": 2, "sizes": [2], "depth": 3}))
    rep.functions_encoded |= trace_functions(one)
    return rep.finish(replay)
