"""C15 -- host/controller messages survive serialisation.

For every message type the real constructor, ``bytes(m)`` and ``deserialize_host_msg`` /
``deserialize_return_msg`` run on symbolic field values (bit-vectors of the *declared* widths,
taken from the property/DESIGN appendix A, not from the code); obligation: same message class and
every field equal to the value the sender passed in; undefined array entries stay undefined.
"""
import itertools

import z3

from .. import codec
from ..codec import BANKS, EQV, OpMaker, add_bv_inputs, byte_terms, flavour_classes, make_instr, shape_kinds, subprocess_replay
from ..cmodel import Tags
from ..common import Report, pmap, trace_functions, worker_result
from ..symx import Explorer, Ob, PathAbort, run_concrete

from netqasm.backend import messages as M  # noqa: E402
from netqasm.lang.operand import Register  # noqa: E402
from netqasm.lang.subroutine import Subroutine  # noqa: E402

PID = "C15"

# declared widths (bits, signed) of the message fields -- the specification side
HOST_FIELDS = {
    "InitNewAppMessage": [("app_id", 32, False), ("max_qubits", 8, False)],
    "OpenEPRSocketMessage": [("app_id", 32, False), ("epr_socket_id", 32, True), ("remote_node_id", 32, True),
                             ("remote_epr_socket_id", 32, True), ("min_fidelity", 8, False)],
    "StopAppMessage": [("app_id", 32, False)],
}
RET_FIELDS = {
    "MsgDoneMessage": [("msg_id", 32, False)],
}


def _guard(fn, label, site):
    try:
        return fn(), None
    except PathAbort:
        raise
    except Exception as e:  # noqa
        return None, [Ob(label, False, dict(site, exc=type(e).__name__), info=repr(e)[:300])]


def body_struct_msg(kind, cname, falsify=False, spec_buffer=False):
    fields = (HOST_FIELDS if kind == "host" else RET_FIELDS)[cname]
    deser = M.deserialize_host_msg if kind == "host" else M.deserialize_return_msg

    def body(inp):
        add_bv_inputs(inp)
        if codec.MODEL:
            Tags.reset()
        cls = getattr(M, cname)
        vals = {n: inp.bv(n, bits, signed) for n, bits, signed in fields}
        site = {"msg": cname}
        def roundtrip():
            raw = bytes(cls(**vals))
            if not spec_buffer:
                return deser(raw)
            # the receiver reads from a reusable receive buffer (bytearray) that is overwritten by the next message afterwards:
            # the deserialised message must keep its values
            buf = bytearray(raw)
            msg = deser(buf)
            for i in range(len(buf)):
                buf[i] = 0
            return msg
        if spec_buffer:
            site["from"] = "reused_bytearray"
        back, err = _guard(roundtrip, "roundtrip_raises", site)
        if err:
            return err
        obs = [Ob("class", type(back) is cls, site)]
        if type(back) is cls:
            for n, _b, _s in fields:
                exp = vals[n]
                ok = EQV(getattr(back, n), exp)
                if falsify and n == fields[0][0]:
                    ok = z3.And(ok, z3.Not(EQV(exp, 77)))
                obs.append(Ob("field", ok, dict(site, field=n)))
        return obs

    return body


def body_signal(inp):
    add_bv_inputs(inp)
    if codec.MODEL:
        Tags.reset()
    obs = []
    for sig in M.Signal:
        back, err = _guard(lambda: M.deserialize_host_msg(bytes(M.SignalMessage(sig))), "roundtrip_raises", {"msg": "SignalMessage"})
        if err:
            return err
        obs.append(Ob("class", type(back) is M.SignalMessage, {"msg": "SignalMessage"}))
        if type(back) is M.SignalMessage:
            obs.append(Ob("field", EQV(back.signal, sig.value), {"msg": "SignalMessage", "field": "signal"}))
    return obs


def body_error(inp):
    add_bv_inputs(inp)
    if codec.MODEL:
        Tags.reset()
    obs = []
    for code in M.ErrorCode:
        back, err = _guard(lambda: M.deserialize_return_msg(bytes(M.ErrorMessage(code))), "roundtrip_raises", {"msg": "ErrorMessage"})
        if err:
            return err
        obs.append(Ob("class", type(back) is M.ErrorMessage, {"msg": "ErrorMessage"}))
        if type(back) is M.ErrorMessage:
            obs.append(Ob("field", EQV(back.err_code, code.value), {"msg": "ErrorMessage", "field": "err_code"}))
    return obs


def body_retreg(bank):
    def body(inp):
        add_bv_inputs(inp)
        if codec.MODEL:
            Tags.reset()
        idx = inp.bv("reg_index", 4, False)
        val = inp.bv("value", 32, True)
        site = {"msg": "ReturnRegMessage"}
        back, err = _guard(lambda: M.deserialize_return_msg(bytes(M.ReturnRegMessage(
            register=Register(BANKS[bank], idx).cstruct, value=val))), "roundtrip_raises", site)
        if err:
            return err
        obs = [Ob("class", type(back) is M.ReturnRegMessage, site)]
        if type(back) is M.ReturnRegMessage:
            obs.append(Ob("field", EQV(back.register.register_name, bank), dict(site, field="register.name")))
            obs.append(Ob("field", EQV(back.register.register_index, idx), dict(site, field="register.index")))
            obs.append(Ob("field", EQV(back.value, val), dict(site, field="value")))
        return obs
    return body


def body_retarr(pattern):
    """pattern: tuple of booleans, True = defined entry"""
    def body(inp):
        add_bv_inputs(inp)
        if codec.MODEL:
            Tags.reset()
        addr = inp.bv("address", 32, True)
        # pattern entry: True = symbolic defined entry, False = undefined, an int = that concrete value (long arrays)
        vals = [(inp.bv(f"v{i}", 32, True) if d is True else None if d is False else int(d)) for i, d in enumerate(pattern)]
        site = {"msg": "ReturnArrayMessage"}
        if len(pattern) > 8:
            site["long"] = True
        def roundtrip():
            # another array message of the same length was serialised just before (state kept between two messages must not leak)
            if 0 < len(vals) <= 8:
                bytes(M.ReturnArrayMessage(address=1, values=[9] * len(vals)))
            return M.deserialize_return_msg(bytes(M.ReturnArrayMessage(address=addr, values=list(vals))))
        back, err = _guard(roundtrip, "roundtrip_raises", site)
        if err:
            return err
        obs = [Ob("class", type(back) is M.ReturnArrayMessage, site)]
        if type(back) is M.ReturnArrayMessage:
            obs.append(Ob("field", EQV(back.address, addr), dict(site, field="address")))
            obs.append(Ob("length", len(back.values) == len(vals), dict(site, field="values")))
            for i, (exp, got) in enumerate(zip(vals, back.values)):
                if exp is None:
                    obs.append(Ob("undefined_entry_stays_undefined", got is None, dict(site, field="values")))
                else:
                    obs.append(Ob("defined_entry", z3.BoolVal(got is not None) if got is None else EQV(got, exp),
                                  dict(site, field="values")))
        return obs
    return body


def body_subroutine(flav_name, cls_names):
    def body(inp):
        add_bv_inputs(inp)
        if codec.MODEL:
            Tags.reset()
        by_name = {c.__name__: c for c in flavour_classes(flav_name)}
        app = inp.bv("app_id", 16, False)
        instrs = []
        for slot, cn in enumerate(cls_names):
            cls = by_name[cn]
            instrs.append(make_instr(cls, shape_kinds(cls), OpMaker(inp, f"s{slot}", [(slot + i) % 4 for i in range(5)])))
        sub = Subroutine(instructions=instrs, app_id=app)
        site = {"msg": "SubroutineMessage"}
        res, err = _guard(lambda: (bytes(sub), M.deserialize_host_msg(bytes(M.SubroutineMessage(sub)))), "roundtrip_raises", site)
        if err:
            return err
        raw, back = res
        obs = [Ob("class", type(back) is M.SubroutineMessage, site)]
        if type(back) is M.SubroutineMessage:
            a, b = byte_terms(raw), byte_terms(bytes(back.subroutine))
            obs.append(Ob("field", z3.And(z3.BoolVal(len(a) == len(b)), *[x == y for x, y in zip(a, b)]), dict(site, field="subroutine")))
            # and from raw bytes
            back2 = M.deserialize_host_msg(bytes(M.SubroutineMessage(raw)))
            c = byte_terms(bytes(back2.subroutine))
            obs.append(Ob("field", z3.And(z3.BoolVal(len(a) == len(c)), *[x == y for x, y in zip(a, c)]), dict(site, field="subroutine(bytes)")))
        return obs
    return body


def bodies(tier):
    out = []
    for cname in HOST_FIELDS:
        out.append((("struct", "host", cname), body_struct_msg("host", cname)))
    for cname in RET_FIELDS:
        out.append((("struct", "ret", cname), body_struct_msg("ret", cname)))
    for cname in list(HOST_FIELDS)[:2]:
        out.append((("struct", "host", cname, "buffer"), None))
    for cname in list(RET_FIELDS)[:2]:
        out.append((("struct", "ret", cname, "buffer"), None))
    out.append((("signal",), body_signal))
    out.append((("error",), body_error))
    for b in range(4):
        out.append((("retreg", b), body_retreg(b)))
    maxlen = 5 if tier == "thorough" else 3
    for n in range(maxlen + 1):
        for pat in itertools.product((True, False), repeat=n):
            out.append((("retarr", list(pat)), body_retarr(pat)))
    # element counts around the byte and 16-bit boundaries of the length field (declared 32 bit)
    for n in ((255, 256, 257, 65535, 65536, 65537) if tier == "thorough" else (255, 256, 257)):
        out.append((("retarrlong", n), None))
    out.append((("subroutine", "vanilla", ["SetInstruction", "RotXInstruction"]), body_subroutine("vanilla", ["SetInstruction", "RotXInstruction"])))
    out.append((("subroutine", "nv", ["WaitAllInstruction"]), body_subroutine("nv", ["WaitAllInstruction"])))
    out.append((("subroutine", "vanilla", []), body_subroutine("vanilla", [])))
    return out


def long_pattern(n):
    """n entries: symbolic / undefined at both ends, concrete values in between (the element count is what matters here)"""
    return (True, False) + (7,) * (n - 4) + (False, True)


def body_from_key(key):
    k = key[0]
    if k == "struct":
        return body_struct_msg(key[1], key[2], spec_buffer=len(key) > 3)
    if k == "signal":
        return body_signal
    if k == "error":
        return body_error
    if k == "retreg":
        return body_retreg(key[1])
    if k == "retarr":
        return body_retarr(tuple(key[1]))
    if k == "retarrlong":
        return body_retarr(long_pattern(key[1]))
    if k == "subroutine":
        return body_subroutine(key[1], key[2])
    raise KeyError(key)


def work(key):
    ex = Explorer(max_paths=20000, budget_s=120, max_cex=50)
    ex.run(body_from_key(key))
    res = worker_result(ex, samples=[{"harness": list(key), "paths": ex.stats.paths}])
    for c in res["cexs"]:
        c["info"] = {"key": list(key), "detail": c["info"]}
        if key[0] == "retarr":
            c["site"] = dict(c["site"])
    return res


def replay(harness, cex):
    if codec.MODEL:
        return subprocess_replay(PID, harness, cex)
    key = cex["info"]["key"]
    res = run_concrete(body_from_key(key), cex["values"])
    bad = [(lab, site) for lab, ok, site, _ in res if not ok and lab == cex["label"]]
    allbad = [(lab, site) for lab, ok, site, _ in res if not ok]
    return bool(bad), f"real ctypes round trip of {key}: failing {allbad}; inputs {cex['values']}"


def main(tier, seed):
    rep = Report(PID, tier, seed,
                 "bounded symbolic execution of the real message constructors, bytes() and deserialize_host_msg / "
                 "deserialize_return_msg on bit-vector field values through the ctypes model; per-field equality with the "
                 "sender's values decided by z3 (QF_BV); counterexamples replayed with real ctypes")
    rep.bounds = ["every message type; every field a free bit-vector of its declared width",
                  "ReturnArrayMessage: lengths 0..%d, every pattern of undefined entries, defined values free int32" % (5 if tier == "thorough" else 3),
                  "SubroutineMessage: subroutines of 0..2 instructions with symbolic operands (payload bytes compared term-wise)"]
    rep.outside = ["arrays longer than the stated length", "values outside the declared widths (C16)"]
    rep.stubs = ["ctypes replaced by vf/cmodel.py"]
    from . import _cmodel_validate
    nchk, problems = _cmodel_validate.validate(seed)
    rep.extra["cmodel_validation"] = {"classes_checked": nchk, "problems": problems}
    for p in problems:
        rep.add_inconclusive("ctypes model disagrees with real ctypes: " + p)
    keys = [k for k, _ in bodies(tier)]
    for r in pmap(work, keys):
        rep.merge_worker("messages", r)
    rep.section("messages", None, harnesses=len(keys))
    ex = Explorer(max_paths=3000, budget_s=90)
    ex.run(body_struct_msg("host", "InitNewAppMessage", falsify=True))
    rep.witness("InitNewAppMessage with oracle 'app_id != 77'", any(c.values.get("app_id") == 77 for c in ex.cexs))

    def one():
        if codec.MODEL:
            Explorer(max_paths=4, budget_s=30).run(body_retarr((True, False)))
            Explorer(max_paths=4, budget_s=30).run(body_struct_msg("host", "OpenEPRSocketMessage"))
    rep.functions_encoded |= trace_functions(one)
    return rep.finish(replay)
