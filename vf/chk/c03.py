"""C03 -- assembling text or IR into a subroutine preserves program meaning.

Source programs (own small IR: commands with register / literal / label / array operands, labels anywhere)
are (1) interpreted directly by the reference semantics extended with literal operands and label targets
and (2) printed to NetQASM text (preamble, DEFINE macros, comments, bracketed arguments), parsed and
assembled by the real front end (parse_text_subroutine -> assemble_subroutine), and the assembled
Subroutine is interpreted by the reference semantics proper.  Literal values and initial register / array
contents are symbolic; z3 decides on every path: same fault / termination behaviour, same final value of
every register the source names, same arrays and returned values; plus the structural clause (inserted
`set`s to registers the source never names, substituted back, give the source sequence, in order, once
each).  The IR route (assemble_subroutine on ICmd objects with symbolic literals) is checked as well.
"""
import copy
import itertools
import json
import random

import z3

from ..common import ROOT, Report, pmap, trace_functions, worker_result
from ..refsem import RefFault, RefState, Unspecified, run as ref_run
from ..symx import EQ, Explorer, Infeasible, Ob, PathAbort, SymInt, run_concrete

from netqasm.lang.encoding import RegisterName
from netqasm.lang.ir import BranchLabel, GenericInstr, ICmd, ProtoSubroutine
from netqasm.lang.operand import Address, ArrayEntry, ArraySlice, Immediate, Label, Register
from netqasm.lang.parsing.text import assemble_subroutine, parse_text_subroutine

PID = "C03"
SPEC = json.load(open(ROOT + "/spec/wire_table.json"))["core"]
PLACE = 7000
STEP_SRC, STEP_ASM = 14, 60


class LitReg:
    """a literal standing in a register position of the SOURCE program"""

    def __init__(self, value):
        self.value = value


class SrcState(RefState):
    def reg(self, r):
        if isinstance(r, LitReg):
            return r.value
        return super().reg(r)


class Pseudo:
    def __init__(self, mnemonic, operands):
        self.mnemonic = mnemonic
        self.operands = operands


def preg(name):
    return Register(RegisterName[name[0]], int(name[1:]))


def slot_value(slot, lits, labels, kind):
    """source-level operand for the reference interpreter"""
    t = slot[0]
    if t == "r":
        return preg(slot[1])
    if t == "k":
        v = lits[slot[1]]
        return Immediate(v) if kind in ("int32", "imm8") else LitReg(v)
    if t == "lab":
        return Immediate(labels[slot[1]])
    if t == "addr":
        return Address(slot[1])
    if t == "entry":
        idx = slot[2]
        return ArrayEntry(Address(slot[1]), preg(idx[1]) if idx[0] == "r" else lits[idx[1]])
    if t == "slice":
        s, e = slot[2], slot[3]
        return ArraySlice(Address(slot[1]), preg(s[1]) if s[0] == "r" else lits[s[1]], preg(e[1]) if e[0] == "r" else lits[e[1]])
    raise ValueError(slot)


def source_program(cmds, lits):
    """[(Pseudo)] with label targets resolved to the index of the next instruction"""
    labels = {}
    n = 0
    for c in cmds:
        if c[0] == "L":
            labels[c[1]] = n
        else:
            n += 1
    prog = []
    for c in cmds:
        if c[0] == "L":
            continue
        kinds = SPEC[c[0]][1]
        prog.append(Pseudo(c[0], [slot_value(s, lits, labels, k) for s, k in zip(c[1:], kinds)]))
    return prog


# ----------------------------------------------------------------------------- printing to text

def slot_text(slot, macros):
    t = slot[0]
    if t == "r":
        return macros.get(slot[1], slot[1])
    if t == "k":
        return str(PLACE + slot[1])
    if t == "lab":
        return slot[1]
    if t == "addr":
        return f"@{slot[1]}"
    if t == "entry":
        return f"@{slot[1]}[{slot_text(slot[2], macros)}]"
    if t == "slice":
        return f"@{slot[1]}[{slot_text(slot[2], macros)}:{slot_text(slot[3], macros)}]"
    raise ValueError(slot)


def to_text(cmds, style):
    """style: dict(macro: bool, comments: bool, args: bool)"""
    macros = {}
    lines = ["# NETQASM 1.0", "# APPID 0"]
    if style.get("macro"):
        used = [s[1] for c in cmds if c[0] != "L" for s in c[1:] if s[0] == "r"]
        if used:
            distinct = list(dict.fromkeys(used))
            if style.get("macro") == "overlap" and len(distinct) >= 2:
                # two macros, one name a prefix of the other, the longer one defined first (substitution is in definition order)
                macros[distinct[0]] = "$mq1"
                macros[distinct[1]] = "$mq"
                lines.append("# DEFINE mq1 " + distinct[0])
                lines.append("# DEFINE mq " + distinct[1])
            else:
                macros[used[0]] = "$mq"
                lines.append("# DEFINE mq " + used[0])
    if style.get("comments"):
        lines.append("// a comment line")
    for c in cmds:
        if c[0] == "L":
            lines.append(c[1] + ":")
            continue
        ops = list(c[1:])
        head = c[0]
        if style.get("args") and ops and ops[0][0] == "k" and c[0] not in ("jmp",):
            # leading literal operands may be written as bracketed arguments
            head = f"{c[0]}({PLACE + ops[0][1]})"
            ops = ops[1:]
        ln = " ".join([head] + [slot_text(s, macros) for s in ops])
        if style.get("comments"):
            ln += "  // " + c[0]
        lines.append(ln)
    return "\n".join(lines) + "\n"


def to_icmds(cmds, lits):
    """IR route: ICmd / BranchLabel objects with the (symbolic) literal values themselves"""
    out = []
    for c in cmds:
        if c[0] == "L":
            out.append(BranchLabel(c[1]))
            continue
        ops = []
        for s in c[1:]:
            t = s[0]
            if t == "r":
                ops.append(preg(s[1]))
            elif t == "k":
                ops.append(lits[s[1]])
            elif t == "lab":
                ops.append(Label(s[1]))
            elif t == "addr":
                ops.append(Address(s[1]))
            elif t == "entry":
                ops.append(ArrayEntry(Address(s[1]), preg(s[2][1]) if s[2][0] == "r" else lits[s[2][1]]))
            elif t == "slice":
                ops.append(ArraySlice(Address(s[1]), preg(s[2][1]) if s[2][0] == "r" else lits[s[2][1]],
                                      preg(s[3][1]) if s[3][0] == "r" else lits[s[3][1]]))
        out.append(ICmd(instruction=GenericInstr[c[0].upper()], operands=ops))
    return out


def patch_placeholders(sub, lits):
    for ins in sub.instructions:
        for f in ("imm", "imm0", "imm1"):
            v = getattr(ins, f, None)
            if isinstance(v, Immediate) and isinstance(v.value, int) and PLACE <= v.value < PLACE + len(lits):
                setattr(ins, f, Immediate(lits[v.value - PLACE]))
    return sub


# ----------------------------------------------------------------------------- the check body

def named_registers(cmds):
    out = set()

    def walk(s):
        if s[0] == "r":
            out.add(s[1])
        elif s[0] in ("entry", "slice"):
            for x in s[2:]:
                walk(x)
    for c in cmds:
        if c[0] != "L":
            for s in c[1:]:
                walk(s)
    return out


def count_lits(cmds):
    m = -1

    def walk(s):
        nonlocal m
        if s[0] == "k":
            m = max(m, s[1])
        elif s[0] in ("entry", "slice"):
            for x in s[2:]:
                walk(x)
    for c in cmds:
        if c[0] != "L":
            for s in c[1:]:
                walk(s)
    return m + 1


def structural(cmds, sub, lits, named):
    """deleting inserted `set`s to registers the source never names and substituting them back yields the source sequence"""
    scratch = {}
    rebuilt = []
    for ins in sub.instructions:
        if ins.mnemonic == "set" and f"{ins.reg.name.name}{ins.reg.index}" not in named:
            scratch[(ins.reg.name, ins.reg.index)] = ins.imm.value
            continue
        ops = []
        for o in ins.operands:
            if isinstance(o, Register) and (o.name, o.index) in scratch:
                ops.append(("lit", scratch[(o.name, o.index)]))
            elif isinstance(o, Register):
                ops.append(("reg", f"{o.name.name}{o.index}"))
            elif isinstance(o, Immediate):
                ops.append(("imm", o.value))
            elif isinstance(o, Address):
                ops.append(("addr", o.address))
            elif isinstance(o, ArrayEntry):
                i = o.index
                ops.append(("entry", o.address.address, ("lit", scratch[(i.name, i.index)]) if isinstance(i, Register) and (i.name, i.index) in scratch
                            else (("reg", f"{i.name.name}{i.index}") if isinstance(i, Register) else ("rawint", i))))
            elif isinstance(o, ArraySlice):
                parts = []
                for i in (o.start, o.stop):
                    parts.append(("lit", scratch[(i.name, i.index)]) if isinstance(i, Register) and (i.name, i.index) in scratch
                                 else (("reg", f"{i.name.name}{i.index}") if isinstance(i, Register) else ("rawint", i)))
                ops.append(("slice", o.address.address, parts[0], parts[1]))
            else:
                ops.append(("other", repr(o)))
        rebuilt.append((ins.mnemonic, ops))
    # expected from the source
    labels = {}
    n = 0
    for c in cmds:
        if c[0] == "L":
            labels[c[1]] = n
        else:
            n += 1
    exp = []
    for c in cmds:
        if c[0] == "L":
            continue
        kinds = SPEC[c[0]][1]
        ops = []
        for s, k in zip(c[1:], kinds):
            def conv(x):
                return ("reg", x[1]) if x[0] == "r" else ("lit", lits[x[1]])
            if s[0] == "r":
                ops.append(("reg", s[1]))
            elif s[0] == "k":
                ops.append(("imm", lits[s[1]]) if k in ("int32", "imm8") else ("lit", lits[s[1]]))
            elif s[0] == "lab":
                ops.append(("label", labels[s[1]]))
            elif s[0] == "addr":
                ops.append(("addr", s[1]))
            elif s[0] == "entry":
                ops.append(("entry", s[1], conv(s[2])))
            elif s[0] == "slice":
                ops.append(("slice", s[1], conv(s[2]), conv(s[3])))
        exp.append((c[0], ops))
    if len(exp) != len(rebuilt):
        return z3.BoolVal(False), {"expected": len(exp), "got": len(rebuilt)}
    parts = []
    for (m1, o1), (m2, o2) in zip(exp, rebuilt):
        if m1 != m2 or len(o1) != len(o2):
            return z3.BoolVal(False), {"expected": m1, "got": m2}
        for a, b in zip(o1, o2):
            if a[0] == "label":
                continue        # branch targets are compared behaviourally (positions shift by the inserted sets)
            if a[0] != b[0]:
                return z3.BoolVal(False), {"expected": str(a)[:60], "got": str(b)[:60]}
            parts.append(EQ(list(_flat(a[1:])), list(_flat(b[1:]))))
    return (z3.And(*parts) if parts else z3.BoolVal(True)), {}


def _flat(t):
    for x in t:
        if isinstance(x, tuple):
            yield from _flat(x)
        else:
            yield x


def run_ref(state, prog, bound):
    try:
        return ref_run(state, prog, bound)
    except Unspecified:
        return "unspecified", None


def make_body(spec, falsify=False):
    cmds, route, style = spec["cmds"], spec["route"], spec.get("style", {})

    def body(inp):
        nl = count_lits(cmds)
        # as in C04: in programs of several commands the MODULUS of addm / subm (a literal or the initial value of a register) is kept
        # in -1..3, which keeps the symbolic modulus out of non-linear territory inside loops (all four fault / no-fault cases remain);
        # a command alone keeps the full range
        real_cmds = [c for c in cmds if c[0] != "L"]
        small_l, small_r = set(), set()
        if len(real_cmds) > 1:
            for c in real_cmds:
                if c[0] in ("addm", "subm") and len(c) > 4:
                    m = c[4]
                    if m[0] == "k":
                        small_l.add(m[1])
                    elif m[0] == "r":
                        small_r.add(m[1])
        lits = [inp.int(f"lit{j}", -1, 3) if j in small_l else inp.int(f"lit{j}") for j in range(nl)]
        named = named_registers(cmds)
        init = {r: (inp.int(f"init_{r}", -1, 3) if r in small_r else inp.int(f"init_{r}")) for r in sorted(named)}
        arr0 = [inp.int("arr0_0"), inp.int("arr0_1")]
        site = {"route": route, "shape": "+".join(c[0] for c in cmds)[:80]}

        def fresh_state(cls):
            st = cls(2)
            for r, v in init.items():
                st.setreg(preg(r), v)
            st.arrays = {0: list(arr0)}
            return st

        # (1) direct interpretation of the source
        src = fresh_state(SrcState)
        step_src, step_asm = spec.get("steps", (STEP_SRC, STEP_ASM))
        kind_s, fault_s = run_ref(src, source_program(cmds, lits), step_src)
        if kind_s in ("steps", "unspecified"):
            return []
        # (2) the real assembler
        try:
            if route == "text":
                sub = parse_text_subroutine(to_text(cmds, style))
                patch_placeholders(sub, lits)
            else:
                sub = assemble_subroutine(ProtoSubroutine(commands=to_icmds(cmds, lits), app_id=0, netqasm_version=(1, 0)))
        except (PathAbort, Infeasible):
            raise
        except RuntimeError as e:
            if "no registers left" in str(e):
                # accepted outcome when the program leaves too few R registers free
                free = 16 - len([r for r in named if r[0] == "R"])
                need = max((sum(1 for s in _lit_slots(c)) for c in cmds if c[0] != "L"), default=0)
                return [Ob("refuses_only_when_registers_run_out", free < need, site, info={"free": free, "needed": need})]
            return [Ob("assembles", False, dict(site, exc="RuntimeError"), info=str(e)[:200])]
        except Exception as e:  # noqa
            return [Ob("assembles", False, dict(site, exc=type(e).__name__), info=f"{type(e).__name__}: {str(e)[:200]}")]
        obs = []
        okk, inf = structural(cmds, sub, lits, named)
        obs.append(Ob("source_sequence_preserved", okk, site, info=inf))
        asm = fresh_state(RefState)
        try:
            kind_a, fault_a = run_ref(asm, list(sub.instructions), step_asm)
        except (PathAbort, Infeasible):
            raise
        except Exception as e:  # noqa   (e.g. an operand that is still a raw int / Label)
            obs.append(Ob("assembled_program_is_executable", False, dict(site, exc=type(e).__name__), info=str(e)[:160]))
            return obs
        same_kind = kind_s == kind_a
        if falsify:
            same_kind = False
        obs.append(Ob("same_termination", same_kind, dict(site, src=kind_s, asm=kind_a)))
        if kind_s != kind_a:
            return obs
        if kind_s == "fault":
            obs.append(Ob("same_fault_reason", fault_s.why == fault_a.why, dict(site, src=fault_s.why, asm=fault_a.why)))
        regs_ok = [EQ(asm.regs.get((r[0], int(r[1:]))), src.regs.get((r[0], int(r[1:])))) for r in sorted(named)]
        obs.append(Ob("registers_named_by_source", z3.And(*regs_ok) if regs_ok else True, site))
        obs.append(Ob("arrays", z3.And(z3.BoolVal(set(asm.arrays) == set(src.arrays)), *[EQ(asm.arrays[a], src.arrays.get(a)) for a in asm.arrays]), site))
        obs.append(Ob("returned_values", z3.And(z3.BoolVal(set(asm.shared_regs) == set(src.shared_regs)),
                                                *[EQ(asm.shared_regs[k], src.shared_regs[k]) for k in asm.shared_regs if k in src.shared_regs],
                                                z3.BoolVal(set(asm.shared_arrays) == set(src.shared_arrays)),
                                                *[EQ(asm.shared_arrays[a], src.shared_arrays[a]) for a in asm.shared_arrays if a in src.shared_arrays]), site))
        obs.append(Ob("unit_module", asm.unit == src.unit, site))
        return obs

    return body


def _lit_slots(c):
    kinds = SPEC[c[0]][1]
    for s, k in zip(c[1:], kinds):
        if s[0] == "k" and k not in ("int32", "imm8"):
            yield s
        elif s[0] in ("entry", "slice"):
            for x in s[2:]:
                if x[0] == "k":
                    yield x


# ----------------------------------------------------------------------------- program generation

def forms():
    """(mnemonic, slot generators); a slot generator yields the alternatives for that position"""
    R = [("r", "R0"), ("r", "R1")]
    RL = lambda: R[:1] + [("k", None)]     # noqa  register or literal
    F = []
    F.append(("set", [[("r", "R0"), ("r", "C1")], [("k", None)]]))
    for mn in ("add", "sub"):
        F.append((mn, [[("r", "R1")], RL(), [("r", "R1"), ("k", None)]]))
    F.append(("addm", [[("r", "R0")], [("r", "R0")], RL(), [("k", None), ("r", "R1")]]))
    F.append(("subm", [[("r", "R1")], RL(), [("r", "R0")], [("k", None)]]))
    for mn in ("beq", "bne", "blt", "bge"):
        F.append((mn, [RL(), [("r", "R1"), ("k", None)], [("lab", None)]]))
    for mn in ("bez", "bnz"):
        F.append((mn, [RL(), [("lab", None)]]))
    F.append(("jmp", [[("lab", None)]]))
    F.append(("array", [[("k", None), ("r", "R0")], [("addr", 1)]]))
    F.append(("store", [RL(), [("entry", 0, ("r", "R1")), ("entry", 0, ("k", None))]]))
    F.append(("load", [[("r", "R0")], [("entry", 0, ("k", None)), ("entry", 0, ("r", "R1"))]]))
    F.append(("undef", [[("entry", 0, ("k", None)), ("entry", 0, ("r", "R0"))]]))
    F.append(("lea", [[("r", "R1")], [("addr", 0)]]))
    F.append(("qalloc", [[("k", None), ("r", "Q0")]]))
    F.append(("qfree", [[("k", None), ("r", "Q0")]]))
    F.append(("ret_reg", [[("r", "R0"), ("r", "M2")]]))
    F.append(("ret_arr", [[("addr", 0)]]))
    F.append(("wait_all", [[("slice", 0, ("k", None), ("k", None)), ("slice", 0, ("r", "R0"), ("k", None)), ("slice", 0, ("k", None), ("r", "R1")),
                           ("slice", 0, ("r", "R0"), ("r", "R1")), ("slice", 0, ("r", "R1"), ("r", "R0")),
                           ("slice", 0, ("k", None), ("r", "R0")), ("slice", 0, ("r", "R0"), ("k", None))]]))
    F.append(("wait_single", [[("entry", 0, ("k", None))]]))
    return F


def instantiate(form):
    """all variants of one form (one per combination of slot alternatives)"""
    mn, slots = form
    out = []
    for combo in itertools.product(*slots):
        out.append([mn] + [s for s in combo])
    return out


def number_lits(cmds, labels):
    """assign literal indices and label names"""
    j = 0
    out = []

    def fix(s):
        nonlocal j
        if s[0] == "k":
            j += 1
            return ("k", j - 1)
        if s[0] == "lab":
            return ("lab", labels[(j + len(out)) % len(labels)] if labels else "END")
        if s[0] in ("entry", "slice"):
            return (s[0], s[1]) + tuple(fix(x) for x in s[2:])
        return s
    for c in cmds:
        if c[0] == "L":
            out.append(c)
        else:
            out.append([c[0]] + [fix(s) for s in c[1:]])
    return out


def programs(tier, seed):
    rnd = random.Random(seed)
    allv = [v for f in forms() for v in instantiate(f)]
    P = []
    # every variant alone, with a label before / after it (targets: itself or the end)
    for v in allv:
        for lay in ("before", "after", "both_consecutive"):
            if lay == "before":
                cmds = [["L", "A"], v, ["L", "END"]]
            elif lay == "after":
                cmds = [v, ["L", "A"], ["L", "END"]]
            else:
                cmds = [["L", "A"], ["L", "B"], v, ["L", "END"]]
            P.append(number_lits(cmds, ["A", "END"] if lay != "both_consecutive" else ["B", "END"]))
    # pairs / triples
    n2 = 3000 if tier == "thorough" else 150
    n3 = 5000 if tier == "thorough" else 150
    n4 = 2500 if tier == "thorough" else 0
    for _ in range(n2):
        a, b = rnd.choice(allv), rnd.choice(allv)
        lay = rnd.choice([[a, ["L", "A"], b, ["L", "END"]], [["L", "A"], a, b, ["L", "END"]], [a, b, ["L", "A"], ["L", "END"]], [["L", "A"], a, ["L", "B"], b]])
        labs = [c[1] for c in lay if c[0] == "L"]
        P.append(number_lits(copy.deepcopy(lay), labs))
    for _ in range(n3):
        a, b, c = rnd.choice(allv), rnd.choice(allv), rnd.choice(allv)
        lay = [a, ["L", "A"], b, ["L", "B"], c, ["L", "END"]] if rnd.random() < 0.5 else [["L", "A"], a, b, ["L", "B"], ["L", "C"], c]
        labs = [c_[1] for c_ in lay if c_[0] == "L"]
        P.append(number_lits(copy.deepcopy(lay), labs))
    for _ in range(n4):
        a, b, c, d = (rnd.choice(allv) for _ in range(4))
        lay = rnd.choice([[a, ["L", "A"], b, c, ["L", "B"], d, ["L", "END"]], [["L", "A"], a, b, ["L", "B"], c, ["L", "C"], d],
                          [a, b, ["L", "A"], ["L", "B"], c, d, ["L", "END"]]])
        labs = [c_[1] for c_ in lay if c_[0] == "L"]
        P.append(number_lits(copy.deepcopy(lay), labs))
    # the same array operand text used twice around another literal (aliasing of parsed operands)
    P.append(number_lits([["store", ("r", "R0"), ("entry", 0, ("k", None))], ["add", ("r", "R1"), ("r", "R1"), ("k", None)],
                          ["load", ("r", "R0"), ("entry", 0, ("k", None))]], []))
    # operands that name a register ONLY inside an array entry / slice, next to a command that needs a scratch register
    setk = ["set", ("r", "C1"), ("k", None)]
    for v in allv:
        inner = [x for s_ in v[1:] if s_[0] in ("entry", "slice") for x in s_[2:] if x[0] == "r"]
        has_lit = any(s_[0] == "k" or (s_[0] in ("entry", "slice") and any(x[0] == "k" for x in s_[2:])) for s_ in v[1:])
        if inner and not has_lit:
            P.append(number_lits(copy.deepcopy([v, setk, ["L", "END"]]), ["END"]))
            P.append(number_lits(copy.deepcopy([setk, v, ["L", "END"]]), ["END"]))
    # register pressure: the source names many R registers and uses literals
    for nreg in (14, 15, 16):
        cmds = [["set", ("r", f"R{i}"), ("k", None)] for i in range(nreg)] + [["add", ("r", "R0"), ("k", None), ("k", None)], ["ret_reg", ("r", f"R{nreg - 1}")]]
        P.append(number_lits(cmds, []))
    specs = []
    styles = [{}, {"macro": True}, {"comments": True}, {"args": True}, {"macro": True, "comments": True, "args": True}, {"macro": "overlap"}]
    for i, cmds in enumerate(P):
        extra = {"steps": (30, 100)} if len(cmds) > 12 else {}
        specs.append(dict({"cmds": cmds, "route": "ir"}, **extra))
        specs.append(dict({"cmds": cmds, "route": "text", "style": styles[i % len(styles)]}, **extra))
    # two macros with overlapping names on every single command that names two different registers
    for v in allv:
        regs = list(dict.fromkeys(s_[1] for s_ in v[1:] if s_[0] == "r"))
        if len(regs) >= 2:
            specs.append({"cmds": number_lits(copy.deepcopy([v, ["L", "END"]]), ["END"]), "route": "text", "style": {"macro": "overlap"}})
    # the aliasing program must use identical literal TEXT twice: force equal placeholders by reusing literal 0
    alias = [["store", ("r", "R0"), ("entry", 0, ("k", 0))], ["add", ("r", "R1"), ("r", "R1"), ("k", 1)], ["load", ("r", "R0"), ("entry", 0, ("k", 0))]]
    specs.append({"cmds": alias, "route": "text", "style": {}})
    specs.append({"cmds": alias, "route": "ir"})
    return specs


def work(chunk):
    exs = Explorer(max_paths=100000, budget_s=900, max_depth=800)
    samples = []
    out = []
    for spec in chunk:
        ex = Explorer(max_paths=3000, budget_s=120, max_depth=800)
        ex.run(make_body(spec))
        exs.stats.add(ex.stats)
        exs.aborts += ex.aborts
        exs.unknowns += ex.unknowns
        for c in ex.cexs:
            d = c.as_dict()
            d["info"] = {"spec": spec, "detail": c.info}
            out.append(d)
        if len(samples) < 2:
            samples.append({"route": spec["route"], "program": [c[0] for c in spec["cmds"]], "paths": ex.stats.paths})
    res = worker_result(exs, samples=samples)
    res["cexs"] = out
    return res


def replay(harness, cex):
    spec = cex["info"]["spec"]
    res = run_concrete(make_body(spec), cex["values"])
    bad = [(lab, site, info) for lab, ok, site, info in res if not ok and lab == cex["label"]]
    allbad = [(lab, info) for lab, ok, site, info in res if not ok]
    txt = to_text(spec["cmds"], spec.get("style", {})) if spec["route"] == "text" else str(spec["cmds"])
    return bool(bad), f"source vs assembled differ: {allbad}; program ({spec['route']}): {txt[:300]!r} inputs {cex['values']}"


def main(tier, seed):
    rep = Report(PID, tier, seed,
                 "source programs are interpreted directly (reference semantics with literal operands and label targets) and through the "
                 "real text front end / assembler followed by the reference semantics of the assembled Subroutine; literals and initial "
                 "memory are z3 integers; z3 decides per path equality of termination, fault reason, source-named registers, arrays and "
                 "returned values, and the structural preservation of the source sequence")
    specs = programs(tier, seed)
    rep.bounds = [f"{len(specs)} (program, route) pairs: every operand-kind variant of 26 instruction forms (register or literal in every position incl. array "
                  "indices and slice bounds) alone with labels before / after / consecutive / past the end; seeded programs of 2 and 3 commands (thorough: also 4) with "
                  "forward and backward jumps; register-pressure programs naming 14-16 R registers; an aliasing program; each through the IR route and "
                  "through text with macros / comments / bracketed arguments",
                  "all literal values, initial register and array contents symbolic; step bound 14 (source) / 60 (assembled); straight-line register-pressure programs: 30 / 100"]
    rep.outside = ["programs longer than 3 commands (thorough: 4), apart from the register-pressure programs", "in programs of several commands: moduli of addm / subm outside -1..3", "macro names overlapping in other ways than 'defined-later name is a prefix of an earlier one' (str.replace substitution in definition order)",
                   "quantum gate instructions (they take no literals except the immediates covered by C17)", "token-level lemmas on arbitrary strings (C17 covers printed text)"]
    rep.stubs = ["reference semantics vf/refsem.py on both sides", "text route: literals are printed as placeholder numerals 7000+j and replaced by the symbolic value after parsing"]
    chunks = [specs[i::64] for i in range(64)]
    for r in pmap(work, [c for c in chunks if c]):
        rep.merge_worker("assemble", r)
    rep.section("assemble", None, programs=len(specs))
    ex = Explorer(max_paths=50)
    ex.run(make_body(specs[0], falsify=True))
    rep.witness("termination with falsified oracle", any(c.label == "same_termination" for c in ex.cexs))

    def one():
        Explorer(max_paths=5).run(make_body(specs[1]))
        Explorer(max_paths=5).run(make_body(specs[40]))
    rep.functions_encoded |= trace_functions(one)
    return rep.finish(replay)
