"""C10 -- entanglement looks like Phi+ whatever Bell state the link delivered.

Keep variants: the real EPRSocket API -> Builder -> assembler -> Executor pipeline runs with the Bell
index of every delivered pair a symbolic integer (0..3) inside the link-layer response; the net Pauli
applied to every virtual qubit is read off the executed gate trace (exact for Pauli corrections) and
z3 decides, on every path, that pair i's qubit received exactly the Pauli of pair i's Bell state and
every other qubit none.  Measure-directly: the real classical post-processing runs on symbolic Bell
index, raw outcome and rotation triples; the oracle is the commutation table of the Bell-state Pauli
with the measured basis.
"""
import builtins

import z3

from ..common import Report, pmap, trace_functions, worker_result
from ..netharness import ok_k_qlink1, ok_m_qlink1, Deadlock, NetExecutor, ok_k, ok_m, pauli_frames
from ..pipeline import PipeConnection
from ..symx import EQ, Explorer, Infeasible, ITE, Ob, PathAbort, SymInt, run_concrete, term

from netqasm.sdk import build_epr
from netqasm.sdk.build_epr import EprMeasBasis, EprMeasureResult
from netqasm.sdk.build_types import GenericHardwareConfig, NVHardwareConfig
from netqasm.sdk.connection import DebugConnection
from netqasm.sdk.epr_socket import EPRSocket
from netqasm.sdk.qubit import Qubit

PID = "C10"


# stub: builtin int() copies the payload of an int subclass; the post-processing only uses it to read a Future's value
def _sym_int(x):
    v = getattr(x, "value", None) if not isinstance(x, (SymInt,)) and hasattr(x, "_connection") or hasattr(x, "_fake_future") else None
    if v is not None:
        return v
    if isinstance(x, SymInt):
        return x
    return builtins.int(x)


build_epr.int = _sym_int


BELL_NAMES = ["PHI_PLUS", "PSI_PLUS", "PSI_MINUS", "PHI_MINUS"]
NETQASM_BELL_INDEX = {"PHI_PLUS": 0, "PSI_PLUS": 1, "PSI_MINUS": 2, "PHI_MINUS": 3}      # |00>+|11>, |01>+|10>, |01>-|10>, |00>-|11>


def bell_pauli_bits(b):
    """(x, z) symplectic bits of the Pauli P with Bell_b = (P (x) I) Phi+ : 0 Phi+ -> I, 1 Psi+ -> X, 2 Psi- -> XZ, 3 Phi- -> Z"""
    if isinstance(b, SymInt):
        from ..symx import mk
        x = mk(z3.If(z3.Or(b.e == 1, b.e == 2), z3.IntVal(1), z3.IntVal(0)))
        z = mk(z3.If(z3.Or(b.e == 2, b.e == 3), z3.IntVal(1), z3.IntVal(0)))
        return x, z
    return (1 if b in (1, 2) else 0), (1 if b in (2, 3) else 0)


def mk_conn(hw, n_other, outcomes=(), number=1):
    DebugConnection.node_ids = {"app": 0, "Bob": 1}
    sock = EPRSocket("Bob")
    ex = NetExecutor("ctrl", outcomes=list(outcomes))
    size = max(5, n_other + number + 1)          # the scenario must fit the qubit budget (one spare slot for NV relocation)
    cfg = NVHardwareConfig(size) if hw == "nv" else GenericHardwareConfig(size)
    conn = PipeConnection("app", executor=ex, epr_sockets=[sock], hardware_config=cfg, max_qubits=size)
    others = []
    for _ in range(n_other):
        q = Qubit(conn)
        others.append(q)
    return conn, sock, ex, others


def _is_id_clash(e):
    import traceback
    seen = 0
    while e is not None and seen < 6:
        tb = traceback.extract_tb(e.__traceback__)
        if isinstance(e, AssertionError) and tb and tb[-1].name in ("_create_ent_qubits", "_build_cmds_move_qubit"):
            return True
        e = e.__context__
        seen += 1
    return False


def body_keep(spec, falsify=False):
    variant, hw, n_other, number, expect = spec["variant"], spec["hw"], spec["n_other"], spec["number"], spec.get("expect", True)

    def body(inp):
        conn, sock, ex, others = mk_conn(hw, n_other, [inp.bit(f"out{i}") for i in range(number)], number=number)
        wire = spec.get("wire", "netqasm")
        if wire == "qlink1":
            # the link layer answers in qlink-interface 1.0 form and names the Bell state with THAT interface's enum; what counts is the
            # state it names (the two interfaces number the states differently)
            names = [BELL_NAMES[inp.choice(f"bellname{i}", 4)] for i in range(number)]
            bells = [NETQASM_BELL_INDEX[nm] for nm in names]
        else:
            bells = [inp.int(f"bell{i}", 0, 3) for i in range(number)]
        built = False
        site = {"variant": variant, "hw": hw}
        if wire != "netqasm":
            site["wire"] = wire

        def post(c, q, pair):
            q.H()             # marker: the application uses the qubit here
            q.measure()

        try:
            kw = {} if expect else {"expect_phi_plus": False}
            qubits = None
            if variant == "recv_keep":
                qubits = sock.recv_keep(number=number, **kw)
            elif variant == "recv_keep_with_info":
                qubits, _infos = sock.recv_keep_with_info(number=number, **kw)
            elif variant == "recv_keep_post":
                sock.recv_keep(number=number, post_routine=post, **kw)
            elif variant == "recv_keep_seq":
                sock.recv_keep(number=number, post_routine=post, sequential=True, **kw)
            elif variant == "recv_rsp":
                qubits = sock.recv_rsp(number=number, **kw)
            elif variant == "recv_rsp_with_info":
                qubits, _infos = sock.recv_rsp_with_info(number=number, **kw)
            elif variant == "recv_context":
                with sock.recv_context(number=number) as (q, pair):
                    q.H()
                    q.measure()
            elif variant == "create_keep":
                qubits = sock.create_keep(number=number)
            else:
                raise KeyError(variant)
            built = True
            creator = variant.startswith("create")
            for i in range(number):
                if wire == "qlink1":
                    ex.deliveries.append(ok_k_qlink1(ex, creator=creator, purpose_id=0, remote_node_id=1, bell_name=names[i], seq=i, create_id=i, goodness=7))
                else:
                    ex.deliveries.append(ok_k(ex, creator=creator, purpose_id=0, remote_node_id=1, bell_state=bells[i], seq=i,
                                              create_id=inp.int(f"cid{i}"), goodness=inp.int(f"good{i}")))
            conn.flush()
        except (PathAbort, Infeasible):
            raise
        except Exception as e:  # noqa
            if not built and hw == "nv" and n_other > 0 and _is_id_clash(e):
                return []   # the SDK refuses to build (virtual-id clash on single-communication-qubit hardware): C09's subject
            return [Ob("pipeline_raises", False, dict(site, exc=type(e).__name__, phase="run" if built else "build", pairs=min(number, 2)),
                       info=f"{type(e).__name__}: {str(e)[:300]}")]
        obs = []
        # frames at the moments the application uses a qubit (marker h) and at the end
        want_corr = expect and not variant.startswith("create") and variant != "recv_context"
        trace = ex.trace
        if qubits is None:
            # consumed inside a routine / context: snapshot at each marker
            j = 0
            for k, ev in enumerate(trace):
                if ev[0] == "h":
                    frames, unexpected = pauli_frames(trace[:k])
                    fx, fz = frames.get(ev[1], (0, 0))
                    if j < number:
                        ex_, ez_ = bell_pauli_bits(bells[j]) if want_corr else (0, 0)
                        ok = z3.And(EQ(fx, ex_), EQ(fz, ez_))
                        if falsify:
                            ok = False
                        obs.append(Ob("pair_correction", ok, site, info={"pair": j, "virtual_qubit": ev[1], "frame": [fx, fz]}))
                    j += 1
            obs.append(Ob("every_pair_used_once", j == number, site, info={"markers": j}))
            frames, unexpected = pauli_frames([e for e in trace if e[0] != "h"])
        else:
            frames, unexpected = pauli_frames(trace)
            for i, q in enumerate(qubits):
                fx, fz = frames.get(q.qubit_id, (0, 0))
                ex_, ez_ = bell_pauli_bits(bells[i]) if want_corr else (0, 0)
                ok = z3.And(EQ(fx, ex_), EQ(fz, ez_))
                if falsify:
                    ok = False
                obs.append(Ob("pair_correction", ok, dict(site, only_qubit_0_exists=(number == 1 and n_other == 0)),
                              info={"pair": i, "virtual_qubit": q.qubit_id, "frame": [fx, fz]}))
        pair_ids = {q.qubit_id for q in (qubits or [])}
        stray = {v: f for v, f in frames.items() if f != (0, 0) and v not in pair_ids and qubits is not None}
        other_ids = [q.qubit_id for q in others]
        touched_others = {v: f for v, f in frames.items() if v in other_ids and f != (0, 0)}
        obs.append(Ob("no_other_qubit_touched", not touched_others and not stray, dict(site, touched=sorted(set(touched_others) | set(stray))),
                      info={"other": touched_others, "stray": stray}))
        obs.append(Ob("only_pauli_corrections", not unexpected, site, info={"unexpected": [list(map(str, e)) for e in unexpected][:4]}))
        if not want_corr:
            gates = [e for e in trace if e[0] in ("x", "y", "z", "rot_x", "rot_y", "rot_z")]
            obs.append(Ob("nothing_corrected", not gates, site, info={"gates": [list(map(str, e)) for e in gates][:4]}))
        return obs

    return body


BASIS_BITS = {EprMeasBasis.X: (1, 0), EprMeasBasis.MX: (1, 0), EprMeasBasis.Y: (1, 1), EprMeasBasis.MY: (1, 1),
              EprMeasBasis.Z: (0, 1), EprMeasBasis.MZ: (0, 1)}
NAMED_ROT = {(0, 24, 0): EprMeasBasis.X, (8, 0, 0): EprMeasBasis.Y, (0, 0, 0): EprMeasBasis.Z, (0, 8, 0): EprMeasBasis.MX,
             (24, 0, 0): EprMeasBasis.MY, (16, 0, 0): EprMeasBasis.MZ}


class _FakeFuture:
    _fake_future = True

    def __init__(self, v):
        self.value = v


def expected_flip(bell, basis_bits):
    """[P_bell anticommutes with the measured Pauli]"""
    px, pz = bell_pauli_bits(bell)
    bx, bz = basis_bits
    if isinstance(bell, SymInt):
        return (px * bz + pz * bx) % 2
    return (px * bz + pz * bx) % 2


def body_postprocess(spec):
    """EprMeasureResult.measurement_outcome on symbolic rotation triples / Bell index / raw outcome"""
    post = spec["post_process"]

    def body(inp):
        rl = tuple(inp.int(f"rl{i}", 0, 31) for i in range(3))
        same = spec["same_basis"]
        rr = rl if same else tuple(inp.int(f"rr{i}", 0, 31) for i in range(3))
        bell = inp.int("bell", 0, 3)
        m = inp.bit("m")
        res = EprMeasureResult(raw_measurement_outcome=_FakeFuture(m), measurement_basis_local=rl, measurement_basis_remote=rr,
                               post_process=post, remote_node_id=_FakeFuture(1), generation_duration=_FakeFuture(0),
                               raw_bell_state=_FakeFuture(bell))
        site = {"post_process": post, "same_basis": same}
        try:
            got = res.measurement_outcome
            raised = None
        except (PathAbort, Infeasible):
            raise
        except RuntimeError as e:
            got, raised = None, e
        except Exception as e:  # noqa
            return [Ob("postprocess_raises_unexpectedly", False, dict(site, exc=type(e).__name__), info=str(e)[:200])]
        # which named basis do the (now path-constrained) rotations denote?  decided by forking on the triples
        named_l = NAMED_ROT.get(tuple(_c(x) for x in rl)) if all(_is_conc(x) for x in rl) else _named(rl)
        named_r = named_l if same else (NAMED_ROT.get(tuple(_c(x) for x in rr)) if all(_is_conc(x) for x in rr) else _named(rr))
        if not post:
            return [Ob("raw_outcome_returned", raised is None and EQ(got, m), site)]
        if named_l is None or named_r is None or named_l != named_r:
            return [Ob("unnamed_or_unequal_bases_raise", raised is not None, site, info={"local": str(named_l), "remote": str(named_r)})]
        if raised is not None:
            return [Ob("named_equal_bases_do_not_raise", False, site, info=str(raised)[:100])]
        flip = expected_flip(bell, BASIS_BITS[named_l])
        exp = (m + flip) % 2
        return [Ob("postprocessed_outcome", EQ(got, exp), dict(site, basis=named_l.name))]

    return body


def _is_conc(x):
    return not isinstance(x, SymInt)


def _c(x):
    return x


def _named(rot):
    """fork on the rotation triple: returns the EprMeasBasis it equals, or None"""
    for tpl, b in NAMED_ROT.items():
        if rot[0] == tpl[0] and rot[1] == tpl[1] and rot[2] == tpl[2]:
            return b
    return None


def body_recv_measure(spec):
    """end to end: recv_measure / create_measure through SDK and Executor with M responses"""
    number, role, expect = spec["number"], spec["role"], spec.get("expect", True)

    def body(inp):
        conn, sock, ex, _ = mk_conn("generic", 0)
        bells = [inp.int(f"bell{i}", 0, 3) for i in range(number)]
        ms = [inp.bit(f"m{i}") for i in range(number)]
        basis = inp.choice("resp_basis", 3)      # Basis enum of the response: Z=0, X=1, Y=2 (what the creator asked for)
        site = {"role": role, "expect": expect, "resp_basis": ["Z", "X", "Y"][basis]}
        try:
            if role == "recv":
                results = sock.recv_measure(number=number, **({} if expect else {"expect_phi_plus": False}))
            else:
                b = [EprMeasBasis.Z, EprMeasBasis.X, EprMeasBasis.Y][basis]
                results = sock.create_measure(number=number, basis_local=b, basis_remote=b)
            for i in range(number):
                ex.deliveries.append(ok_m(ex, creator=(role == "create"), purpose_id=0, remote_node_id=1, outcome=ms[i], basis=basis,
                                          bell_state=bells[i], seq=i))
            conn.flush()
            got = [r.measurement_outcome for r in results]
            raw = [r.raw_measurement_outcome.value for r in results]
        except (PathAbort, Infeasible):
            raise
        except Exception as e:  # noqa
            return [Ob("pipeline_raises", False, dict(site, exc=type(e).__name__), info=f"{type(e).__name__}: {str(e)[:300]}")]
        obs = []
        bb = [(0, 1), (1, 0), (1, 1)][basis]
        for i in range(number):
            obs.append(Ob("raw_outcome_of_pair", EQ(raw[i], ms[i]), site, info={"pair": i}))
            if role == "recv" and expect:
                exp = (ms[i] + expected_flip(bells[i], bb)) % 2
            else:
                exp = ms[i]
            obs.append(Ob("postprocessed_outcome_of_pair", EQ(got[i], exp), site, info={"pair": i}))
        return obs

    return body


def body_of(spec):
    k = spec["kind"]
    if k == "keep":
        return body_keep(spec)
    if k == "postprocess":
        return body_postprocess(spec)
    if k == "measure":
        return body_recv_measure(spec)
    raise KeyError(k)


def work(spec):
    ex = Explorer(max_paths=50000, budget_s=300, max_depth=3000)
    ex.run(body_of(spec))
    res = worker_result(ex, samples=[dict(spec, paths=ex.stats.paths)])
    for c in res["cexs"]:
        c["info"] = {"spec": spec, "detail": c["info"]}
    return res


def replay(harness, cex):
    spec = cex["info"]["spec"]
    res = run_concrete(body_of(spec), cex["values"])
    bad = [(lab, info) for lab, ok, site, info in res if not ok and lab == cex["label"]]
    allbad = [(lab, info) for lab, ok, site, info in res if not ok]
    return bool(bad), f"concrete run: failing {allbad}; scenario {spec} inputs {cex['values']}"


def main(tier, seed):
    rep = Report(PID, tier, seed,
                 "bounded symbolic execution of the real EPRSocket -> Builder -> assembler -> Executor pipeline with the Bell index of "
                 "every link-layer response symbolic; the net Pauli per virtual qubit is read off the executed gate trace and compared "
                 "with the Bell-state Pauli by z3 on every path; the classical post-processing of measure-directly results runs on "
                 "symbolic rotation triples, Bell index and outcome against the commutation table")
    maxn = 4 if tier == "thorough" else 2
    specs = []
    for hw in ("generic", "nv"):
        for variant in ("recv_keep", "recv_keep_with_info", "recv_keep_post", "recv_keep_seq", "recv_rsp", "recv_rsp_with_info",
                        "recv_context", "create_keep"):
            for number in range(1, maxn + 1):
                for n_other in (0, 1, 2):
                    if hw == "nv" and number + n_other > 4:
                        continue
                    if variant in ("recv_rsp", "recv_rsp_with_info") and hw == "nv" and number > 1:
                        continue
                    specs.append({"kind": "keep", "variant": variant, "hw": hw, "n_other": n_other, "number": number})
                    if variant in ("recv_keep", "recv_rsp_with_info", "recv_keep_seq") and n_other < 2:
                        specs.append({"kind": "keep", "variant": variant, "hw": hw, "n_other": n_other, "number": number, "expect": False})
    for post in (True, False):
        for same in (True, False):
            specs.append({"kind": "postprocess", "post_process": post, "same_basis": same})
    for role in ("recv", "create"):
        for number in range(1, maxn + 1):
            specs.append({"kind": "measure", "role": role, "number": number})
        specs.append({"kind": "measure", "role": "recv", "number": 2, "expect": False})
    # the same, with the link layer speaking qlink-interface 1.0 (its own Bell-state enum)
    for variant in ("recv_keep_post", "recv_keep_seq", "recv_rsp"):
        specs.append({"kind": "keep", "variant": variant, "hw": "generic", "n_other": 0, "number": 2 if variant != "recv_rsp" else 1, "wire": "qlink1"})
    specs.append({"kind": "keep", "variant": "recv_keep", "hw": "nv", "n_other": 0, "number": 1, "wire": "qlink1"})
    rep.bounds = [f"keep: 8 API variants x generic/NV hardware config x 0..2 other live qubits x 1..{maxn} pairs, all Bell-index tuples symbolic (0..3 each), with and without expect_phi_plus",
                  "measure-directly post-processing: rotation triples symbolic in 0..31^3 (local, and remote equal or independent), Bell index, raw outcome symbolic",
                  f"recv_measure / create_measure end to end: 1..{maxn} pairs, Bell indices, outcomes symbolic, response basis Z/X/Y"]
    rep.outside = ["more pairs than the bound", "real simulators' timing (responses are delivered in order at wait points; other arrival orders are C12)",
                   "non-Pauli corrections would be reported as unexpected gates (none exist)"]
    rep.stubs = ["RecStack network stack + scripted in-order delivery of LinkLayerOKTypeK/M at the executor's _do_wait hook",
                 "module global `int` of netqasm.sdk.build_epr replaced by a pass-through for proxies (builtin int() copies an int subclass' payload)",
                 "Pauli-frame reading of the gate trace (rot_x/rot_z 16*pi/16 = X/Z up to phase, mov moves the frame)"]
    for r in pmap(work, specs):
        rep.merge_worker("epr", r)
    rep.section("epr", None, scenarios=len(specs))
    ex = Explorer(max_paths=3000, budget_s=90)
    ex.run(body_keep({"kind": "keep", "variant": "recv_keep", "hw": "generic", "n_other": 0, "number": 1}, falsify=True))
    rep.witness("pair correction with falsified oracle", any(c.label == "pair_correction" for c in ex.cexs))

    def one():
        Explorer(max_paths=4, budget_s=30).run(body_keep({"kind": "keep", "variant": "recv_keep", "hw": "nv", "n_other": 1, "number": 2}))
        Explorer(max_paths=4, budget_s=30).run(body_recv_measure({"kind": "measure", "role": "recv", "number": 2}))
    rep.functions_encoded |= trace_functions(one)
    return rep.finish(replay)
