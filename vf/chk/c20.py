"""C20 -- toolbox circuits implement their documented operators.

Full pipeline: real toolbox function -> real SDK -> assembler -> StateVecExecutor (exact amplitudes in
Q(zeta_64), vf/cyclo.py).  The input state of the data qubits is arbitrary (all coordinates free
z3 Reals); measurement outcomes are symbolic bits that fork.  z3 (QF_LRA) decides on every path that
the final (un-normalised) map equals the documented operator up to a global phase:
Toffoli permutation, T^dagger, the projector (I +- P)/2 for parity_meas together with the returned
value, and cos(theta/2)|0> + e^{i phi} sin(theta/2)|1> for set_qubit_state on the dyadic grid.
"""
import itertools

import numpy as np
import z3

from .. import cyclo as cy
from ..common import Report, pmap, trace_functions, worker_result
from ..pipeline import PipeConnection
from ..statevec import StateVecExecutor
from ..symx import Explorer, Infeasible, Ob, PathAbort, Stats, run_concrete

from netqasm.sdk.build_types import GenericHardwareConfig
from netqasm.sdk.connection import DebugConnection
from netqasm.sdk.qubit import Qubit
from netqasm.sdk.toolbox.gates import t_inverse, toffoli_gate
from netqasm.sdk.toolbox.measurements import parity_meas
from netqasm.sdk.toolbox.state_prep import set_qubit_state

PID = "C20"
NPHYS = 4
LRA = {"queries": 0, "sat": 0, "unsat": 0, "unknown": 0, "solver_s": 0.0}


def mk(outcomes):
    ex = StateVecExecutor("ctrl", n_phys=NPHYS, outcomes=list(outcomes))
    conn = PipeConnection("app", executor=ex, hardware_config=GenericHardwareConfig(NPHYS), max_qubits=NPHYS)
    return conn, ex


def phys_of(ex, q):
    return ex._qubit_unit_modules[0][q.qubit_id]


def decide(U, V, free, label, site, info=None):
    """one LRA obligation: U == zeta^k V on the free inputs; returns an Ob whose truth was decided by z3"""
    st = cy.LraStats()
    k, w = cy.equal_up_to_phase_fast(U, V, st, input_mask=free)
    for key in ("queries", "sat", "unsat", "unknown"):
        LRA[key] += getattr(st, key)
    LRA["solver_s"] += st.solver_s
    if w == "unknown":
        raise PathAbort("LRA query unknown")
    return Ob(label, k is not None, site, info=dict(info or {}, phase_zeta_power=k))


def free_inputs(data_phys):
    """input basis states in which every non-data slot is |0>"""
    mask = 0
    for p in data_phys:
        mask |= 1 << (NPHYS - 1 - p)
    return [b for b in range(1 << NPHYS) if not (b & ~mask)]


PAULI = {"I": cy.I2, "X": cy.X, "Y": cy.Y, "Z": cy.Z}


def pauli_op(bases, data_phys):
    P = cy.identity(NPHYS)
    for B, p in zip(bases, data_phys):
        if B != "I":
            P = cy.apply1(P, NPHYS, p, PAULI[B])
    return P


def op_add(A, B, sign):
    """(A + sign*B)/2 as an Op"""
    e = max(A.e, B.e)
    X_ = A.A * (1 << (e - A.e)) + sign * (B.A * (1 << (e - B.e)))
    return cy.Op(X_, e + 1).normalize()


def body_toffoli(spec):
    perm = spec["order"]       # which created qubit plays control1, control2, target

    def body(inp):
        conn, ex = mk([])
        qs = [Qubit(conn) for _ in range(3)]
        conn.flush()
        c1, c2, t = (qs[i] for i in perm)
        site = {"circuit": "toffoli"}
        try:
            toffoli_gate(c1, c2, t)
            conn.flush()
        except (PathAbort, Infeasible):
            raise
        except Exception as e:  # noqa
            return [Ob("pipeline_raises", False, dict(site, exc=type(e).__name__), info=str(e)[:200])]
        pc1, pc2, pt = phys_of(ex, c1), phys_of(ex, c2), phys_of(ex, t)
        V = cy.identity(NPHYS)
        # Toffoli = controlled-controlled-X: build from the permutation of basis states
        A = np.zeros_like(V.A)
        b1, b2, bt = (1 << (NPHYS - 1 - p) for p in (pc1, pc2, pt))
        for b in range(1 << NPHYS):
            tgt = b ^ bt if (b & b1 and b & b2) else b
            A[tgt, b, 0] = 1
        V = cy.Op(A, 0)
        return [decide(ex.U, V, free_inputs([pc1, pc2, pt]), "equals_toffoli", site, {"assignment": perm})]
    return body


def body_tinv(spec):
    def body(inp):
        conn, ex = mk([])
        q = Qubit(conn)
        extra = [Qubit(conn) for _ in range(spec.get("others", 0))]
        conn.flush()
        site = {"circuit": "t_inverse"}
        try:
            t_inverse(q)
            conn.flush()
        except (PathAbort, Infeasible):
            raise
        except Exception as e:  # noqa
            return [Ob("pipeline_raises", False, dict(site, exc=type(e).__name__), info=str(e)[:200])]
        p = phys_of(ex, q)
        Tdg = cy.mat([[cy.ONE, cy.ZERO], [cy.ZERO, cy.zpow(-8)]])
        V = cy.apply1(cy.identity(NPHYS), NPHYS, p, Tdg)
        return [decide(ex.U, V, free_inputs([phys_of(ex, x) for x in [q] + extra]), "equals_T_dagger", site)]
    return body


def body_parity(spec):
    bases = spec["bases"]
    neg = bases.startswith("-")
    letters = bases[1:] if neg else bases

    def body(inp):
        m_bit = inp.bit("outcome")
        conn, ex = mk([m_bit])
        qs = [Qubit(conn) for _ in letters]
        conn.flush()
        site = {"circuit": "parity_meas", "weight": sum(1 for c in letters if c != "I"), "negative": neg}
        try:
            ret = parity_meas(qs, bases)
            conn.flush()
            value = ret if isinstance(ret, int) and not hasattr(ret, "_connection") else ret.value
        except (PathAbort, Infeasible):
            raise
        except Exception as e:  # noqa
            return [Ob("pipeline_raises", False, dict(site, exc=type(e).__name__), info=f"{type(e).__name__}: {str(e)[:200]}")]
        data = [phys_of(ex, q) for q in qs]
        weight = site["weight"]
        obs = []
        if weight == 0:
            # trivial measurement: no quantum operation, value = 0 (or 1 for a leading minus: -I has eigenvalue -1)
            obs.append(Ob("returned_value", value == (1 if neg else 0), site, info={"bases": bases, "value": str(value)}))
            obs.append(decide(ex.U, cy.identity(NPHYS), free_inputs(data), "state_untouched", site, {"bases": bases}))
            return obs
        if not ex.meas_log:
            return [Ob("measurement_happened", False, site, info={"bases": bases})]
        m = ex.meas_log[-1][1]
        # raw outcome m is the (-1)^m eigenvalue of P; the returned value r is the eigenvalue index of the SIGNED operator
        r_expected = (1 - m) if neg else m
        obs.append(Ob("returned_value", value == r_expected, site, info={"bases": bases, "raw_outcome": m, "value": str(value)}))
        P = pauli_op(letters, data)
        proj = op_add(cy.identity(NPHYS), P, +1 if m == 0 else -1)      # (I + (-1)^m P)/2
        obs.append(decide(ex.U, proj, free_inputs(data), "post_measurement_state_is_projector", site, {"bases": bases, "raw_outcome": m}))
        return obs
    return body


def body_state_prep(spec):
    kt, kp = spec["theta_k"], spec["phi_k"]      # theta = kt*pi/16, phi = kp*pi/16

    def body(inp):
        conn, ex = mk([])
        q = Qubit(conn)
        conn.flush()
        site = {"circuit": "set_qubit_state"}
        try:
            set_qubit_state(q, phi=kp * np.pi / 16, theta=kt * np.pi / 16)
            conn.flush()
        except (PathAbort, Infeasible):
            raise
        except ValueError as e:
            if "outside Q(zeta_64)" in str(e):
                return []
            return [Ob("pipeline_raises", False, dict(site, exc="ValueError"), info=str(e)[:200])]
        except Exception as e:  # noqa
            return [Ob("pipeline_raises", False, dict(site, exc=type(e).__name__), info=str(e)[:200])]
        p = phys_of(ex, q)
        # expected: |0> -> cos(theta/2)|0> + e^{i phi} sin(theta/2)|1>  (theta/2 = kt*pi/32, phi = 2*kp * pi/32)
        c0 = cy.ccos(kt)
        c1 = cy.zpow(2 * kp) * cy.csin(kt)
        V = cy.zero_op(1 << NPHYS, 1 << NPHYS)
        bit = 1 << (NPHYS - 1 - p)
        cy.set_entry(V, 0, 0, c0)
        cy.set_entry(V, bit, 0, c1)
        return [decide(ex.U, V, [0], "prepared_state", site, {"theta": f"{kt}pi/16", "phi": f"{kp}pi/16"})]
    return body


def body_of(spec):
    return {"toffoli": body_toffoli, "tinv": body_tinv, "parity": body_parity, "prep": body_state_prep}[spec["kind"]](spec)


def work(spec):
    for k in LRA:
        LRA[k] = 0 if k != "solver_s" else 0.0
    ex = Explorer(max_paths=2000, budget_s=600)
    ex.run(body_of(spec))
    ex.stats.q_sat += LRA["sat"]
    ex.stats.q_unsat += LRA["unsat"]
    ex.stats.q_unknown += LRA["unknown"]
    ex.stats.solver_s += LRA["solver_s"]
    res = worker_result(ex, samples=[dict(spec, paths=ex.stats.paths, lra_queries=LRA["queries"])])
    for c in res["cexs"]:
        c["info"] = {"spec": spec, "detail": c["info"]}
    return res


def replay(harness, cex):
    spec = cex["info"]["spec"]
    res = run_concrete(body_of(spec), cex["values"])
    bad = [(lab, info) for lab, ok, site, info in res if not ok and lab == cex["label"]]
    allbad = [(lab, info) for lab, ok, site, info in res if not ok]
    return bool(bad), f"concrete pipeline run (exact amplitudes): failing {allbad}; scenario {spec}"


def pauli_strings(maxlen):
    out = []
    for n in range(1, maxlen + 1):
        for letters in itertools.product("IXYZ", repeat=n):
            s = "".join(letters)
            out += [s, "-" + s]
    return out


def main(tier, seed):
    rep = Report(PID, tier, seed,
                 "the real toolbox functions run through the real SDK, assembler and an exact state-vector executor (amplitudes in "
                 "Q(zeta_64)); the input state is arbitrary (free real coordinates) and z3 (QF_LRA) decides on every path (outcome bits "
                 "fork) that the final un-normalised map equals the documented operator / projector up to a global phase, and that "
                 "the returned value is the signed parity")
    specs = []
    perms = list(itertools.permutations(range(3))) if tier == "thorough" else [(0, 1, 2), (2, 0, 1), (1, 2, 0)]
    for p in perms:
        specs.append({"kind": "toffoli", "order": list(p)})
    specs.append({"kind": "tinv", "others": 0})
    specs.append({"kind": "tinv", "others": 1})
    strings = pauli_strings(3)
    if tier != "thorough":
        # quick: every string of length 1 and 2, and the length-3 strings with at most one identity plus all signed all-identity ones
        strings = [s for s in strings if len(s.lstrip("-")) < 3 or s.lstrip("-").count("I") <= 1 or set(s.lstrip("-")) == {"I"}]
    for s in strings:
        specs.append({"kind": "parity", "bases": s})
    # negative angles and angles beyond a full turn included
    grid = list(range(-32, 65, 1)) if tier == "thorough" else (-24, -8, -1, 0, 1, 5, 8, 16, 24, 31, 37)
    for kt in grid:
        for kp in grid:
            specs.append({"kind": "prep", "theta_k": kt, "phi_k": kp})
    rep.bounds = [f"toffoli_gate for {len(perms)} assignments of the three qubits to virtual ids; t_inverse (with and without another live qubit)",
                  f"parity_meas for {len(strings)} Pauli strings over I,X,Y,Z of length 1..3 with and without leading '-', both measurement outcomes",
                  f"set_qubit_state on the dyadic grid theta, phi in {{k*pi/16}}, k from {min(grid)} to {max(grid)} incl. negative angles and angles beyond 2 pi ({len(list(grid))}^2 points); arbitrary angles are composed from C19",
                  "input states: all coordinates of the data-qubit amplitudes free (4 physical slots, non-data slots |0>)"]
    rep.outside = ["create_ghz (multi-node)", "set_qubit_state for non-dyadic angles (C19 gives the step sum; same-axis rotations add)"]
    rep.stubs = ["StateVecExecutor (vf/statevec.py): exact operator semantics of vf/cyclo.py; init only on fresh slots; released qubits are "
                 "reset using the known measurement outcome", "PipeConnection bypasses serialisation"]
    for r in pmap(work, specs):
        rep.merge_worker("circuits", r)
    rep.section("circuits", None, scenarios=len(specs))
    # vacuity: CNOT is not Toffoli
    k, w = cy.equal_up_to_phase_fast(cy.cnot(cy.identity(2), 2, 0, 1), cy.identity(2))
    rep.witness("CNOT vs identity must differ", k is None)

    def one():
        Explorer(max_paths=4).run(body_parity({"kind": "parity", "bases": "-XYZ"}))
    rep.functions_encoded |= trace_functions(one)
    return rep.finish(replay)
