"""Translator validation of vf/cmodel.py against the real ctypes, on every run:
for every Structure class declared by the model-backed netqasm modules, store boundary and
seeded random concrete values into a model instance and into its real-ctypes twin, compare the
serialised bytes, then decode random bytes with both and compare every leaf field."""
import ctypes as rc
import random

import z3

from .. import cmodel
from ..cmodel import Structure, Tags, _Scalar


def _leaf_paths(mcls, prefix=()):
    out = []
    for f in mcls._all_fields_:
        if f.bits is not None or issubclass(f.typ, _Scalar):
            out.append((prefix + (f.name,), f))
        elif issubclass(f.typ, Structure):
            out += _leaf_paths(f.typ, prefix + (f.name,))
        elif hasattr(f.typ, "_length_"):
            for i in range(f.typ._length_):
                if issubclass(f.typ._type_, _Scalar):
                    out.append((prefix + (f.name, i), f))
    return out


def _get(obj, path):
    for p in path:
        obj = obj[p] if isinstance(p, int) else getattr(obj, p)
    return obj


def _set(obj, path, v):
    for p in path[:-1]:
        obj = obj[p] if isinstance(p, int) else getattr(obj, p)
    p = path[-1]
    if isinstance(p, int):
        obj[p] = v
    else:
        setattr(obj, p, v)


def _concrete_bytes(tagged: bytes):
    out = []
    for t in tagged:
        term = z3.simplify(Tags.get(t))
        if not z3.is_bv_value(term):
            raise ValueError("non-concrete byte in concrete differential")
        out.append(term.as_long())
    return bytes(out)


def validate(seed: int):
    rnd = random.Random(seed)
    problems = []
    n = 0
    if not getattr(cmodel, "_installed_ok", True):
        return 0, ["model not installed"]
    for mn, name, mcls in cmodel.model_classes():
        real = mcls._real_
        n += 1
        try:
            paths = _leaf_paths(mcls)
            if rc.sizeof(real) != mcls._size():
                problems.append(f"{name}: sizeof differs")
            for trial in range(6):
                Tags.reset()
                m = mcls.__new__(mcls)
                r = real()
                for path, f in paths:
                    if trial == 0:
                        v = -1
                    elif trial == 1:
                        v = 2 ** 31
                    elif trial == 2:
                        v = 255 + 1
                    else:
                        v = rnd.choice([rnd.randrange(-2 ** 33, 2 ** 33), rnd.randrange(0, 300), rnd.randrange(-200, 0)])
                    _set(m, path, v)
                    _set(r, path, v)
                mb = _concrete_bytes(bytes(m))
                rb = bytes(r)
                if mb != rb:
                    problems.append(f"{name}: encode differs on trial {trial}: model {mb.hex()} real {rb.hex()}")
                    break
                for path, f in paths:
                    mv, rv = _get(m, path), _get(r, path)
                    if int(mv) != int(rv):
                        problems.append(f"{name}.{path}: read-back differs {mv} vs {rv}")
                        break
                raw = bytes(rnd.randrange(256) for _ in range(rc.sizeof(real)))
                Tags.reset()
                md = mcls.from_buffer_copy(Tags.tag_concrete(raw))
                rd = real.from_buffer_copy(raw)
                for path, f in paths:
                    mv, rv = _get(md, path), _get(rd, path)
                    if int(mv) != int(rv):
                        problems.append(f"{name}.{path}: decode differs {mv} vs {rv} on {raw.hex()}")
                        break
        except Exception as e:  # noqa
            problems.append(f"{name}: validation raised {type(e).__name__}: {e}")
    Tags.reset()
    return n, problems
