"""C04 -- the base executor implements the NetQASM classical semantics and faults precisely.

The real ``Executor.execute_subroutine`` runs on z3-backed proxies from a symbolic initial state
(register contents, array entries, immediates symbolic; definedness, aliasing of operands, array
lengths, unit-module occupancy and branch targets enumerated by forking) and the resulting state
is compared, as z3 formulas, with the independent reference interpreter vf/refsem.py.
"""
import itertools
import random

import z3

from ..common import Report, pmap, trace_functions, worker_result
from ..pipeline import TraceExecutor
from ..refsem import RefFault, RefState, Unspecified, run as ref_run
from ..symx import EQ, Explorer, Infeasible, Ob, PathAbort, SymInt, run_concrete

from netqasm.lang.encoding import RegisterName
from netqasm.lang.instr import core
from netqasm.lang.instr.flavour import VanillaFlavour
from netqasm.lang.operand import Address, ArrayEntry, Immediate, Register
from netqasm.lang.subroutine import Subroutine
from netqasm.sdk.shared_memory import SharedMemoryManager

PID = "C04"
APP = 0
POOL4 = ["R0", "C1", "Q2", "M3"]
POOL3 = ["R0", "Q1", "M0"]
STEP_BOUND = 12


class StepBound(BaseException):
    pass


class BoundedExecutor(TraceExecutor):
    def __init__(self, *a, **k):
        super().__init__(*a, **k)
        self.steps = 0

    def _execute_command(self, subroutine_id, command):
        if self.steps + 1 > 4 * STEP_BOUND:
            raise StepBound()
        return super()._execute_command(subroutine_id, command)


def parse_reg(s):
    return Register(RegisterName[s[0]], int(s[1:]))


FLAV = VanillaFlavour()


def build_program(inp, spec, tag):
    """spec: list of [mnemonic, operand...] -> (instructions, registers used as operands)"""
    pool_choice = {}
    instrs = []
    used = []

    def reg_of(o):
        if isinstance(o, str):
            r = o
        else:  # {"pool": k, "of": [...]}
            key = o["pool"]
            if key not in pool_choice:
                pool_choice[key] = inp.pick(f"{tag}_alias{key}", o["of"])
            r = pool_choice[key]
        if r not in used:
            used.append(r)
        return parse_reg(r)

    for li, line in enumerate(spec):
        mn, ops = line[0], line[1:]
        cls = FLAV.get_instr_by_name(mn)
        real_ops = []
        for oi, o in enumerate(ops):
            if isinstance(o, (str,)) or (isinstance(o, dict) and "pool" in o):
                real_ops.append(reg_of(o))
            elif isinstance(o, int):
                real_ops.append(Immediate(o))
            elif "sym" in o:
                real_ops.append(Immediate(inp.int(f"{tag}{li}_{o['sym']}")))
            elif "tgt" in o:
                real_ops.append(Immediate(inp.choice(f"{tag}_tgt{li}", o["tgt"] + 1)))
            elif "addr" in o:
                real_ops.append(Address(o["addr"]))
            elif "entry" in o:
                real_ops.append(ArrayEntry(Address(o["entry"][0]), reg_of(o["entry"][1])))
            else:
                raise ValueError(o)
        instrs.append(cls.from_operands(real_ops))
    return instrs, used


def make_body(spec, falsify=False):
    """spec = {"prog": [...], "second": [...]|None, "unit": n, "arrays": {addr: maxlen}, "undef_regs": bool}"""

    def body(inp):
        SharedMemoryManager.reset_memories()
        prog, used = build_program(inp, spec["prog"], "p")
        prog2, used2 = build_program(inp, spec["second"], "q") if spec.get("second") else ([], [])
        for r in used2:
            if r not in used:
                used.append(r)
        unit_n = spec.get("unit", 2)
        # ---- initial state (shared by the reference and the executor)
        init_regs = {}
        for r in used:
            if spec.get("undef_regs", True) and inp.flag(f"undef_{r}"):
                init_regs[r] = None
            elif r in (spec.get("small_regs") or {}):
                lo, hi = spec["small_regs"][r]
                init_regs[r] = lo + inp.choice(f"init_{r}", hi - lo + 1)
            else:
                init_regs[r] = inp.int(f"init_{r}")
        init_arrays = {}
        for addr, maxlen in (spec.get("arrays") or {}).items():
            addr = int(addr)
            n = inp.choice(f"arr{addr}_len", maxlen + 2) - 1      # -1 = not declared
            if n < 0:
                continue
            init_arrays[addr] = [None if inp.flag(f"arr{addr}_undef{i}") else inp.int(f"arr{addr}_{i}") for i in range(n)]
        init_unit = [inp.flag(f"alloc{v}") for v in range(unit_n)] if spec.get("qubits") else [False] * unit_n

        # ---- reference run(s) first: establishes the preconditions (behaviour the property does not name is dropped)
        ref = RefState(unit_n)
        for r, v in init_regs.items():
            if v is not None:
                ref.setreg(parse_reg(r), v)
        ref.arrays = {a: list(v) for a, v in init_arrays.items()}
        ref.unit = list(init_unit)
        ref_results = []
        try:
            for p in ([prog, prog2] if prog2 else [prog]):
                kind, fault = ref_run(ref, p, STEP_BOUND)
                if kind == "steps":
                    return []          # outside the step bound
                ref_results.append((kind, fault))
        except Unspecified:
            return []

        # ---- the real executor
        ex = BoundedExecutor("ctrl")
        ex.init_new_application(app_id=APP, max_qubits=unit_n)
        for r, v in init_regs.items():
            if v is not None:
                reg = parse_reg(r)
                ex._registers[APP][reg.name][reg.index] = v
        for a, vals in init_arrays.items():
            ex._app_arrays[APP]._arrays[a] = list(vals)
        for v, al in enumerate(init_unit):
            if al:
                ex._qubit_unit_modules[APP][v] = 10 + v
                ex._used_physical_qubit_addresses.add(10 + v)
        real_results = []
        for p in ([prog, prog2] if prog2 else [prog]):
            sub = Subroutine(instructions=list(p), app_id=APP)
            try:
                list(ex.execute_subroutine(sub))
                real_results.append(("done", None))
            except StepBound:
                real_results.append(("diverged", None))
                break
            except (PathAbort, Infeasible):
                raise
            except Exception as e:  # noqa
                real_results.append(("fault", e))
        site = {"prog": [l[0] for l in spec["prog"]] + (["|"] + [l[0] for l in spec["second"]] if spec.get("second") else [])}
        obs = []
        for k, ((rk, rf), (xk, xe)) in enumerate(zip(ref_results, real_results)):
            obs.append(Ob("fault_agreement", rk == xk, dict(site, ref=rk, real=xk, exc=type(xe).__name__ if xe else None),
                          info=str(xe)[:200] if xe else None))
            if rk == "fault" and xk == "fault":
                msg = str(xe)
                obs.append(Ob("fault_names_line", msg.startswith(f"At line {rf.line}:"), dict(site, why=rf.why), info=msg[:120]))
        if len(real_results) != len(ref_results):
            obs.append(Ob("fault_agreement", False, dict(site, ref="done", real="diverged")))
            return obs
        if any(a != b for (a, _), (b, _) in zip(ref_results, real_results)):
            return obs
        # ---- final state
        regs_ok = []
        real_regs = ex._registers[APP]
        keys = set(ref.regs)
        for bank in RegisterName:
            for idx in real_regs[bank]._register:
                keys.add((bank.name, idx))
        for (bank, idx) in sorted(keys):
            regs_ok.append(EQ(real_regs[RegisterName[bank]]._register.get(idx), ref.regs.get((bank, idx))))
        if falsify and regs_ok:
            regs_ok.append(z3.BoolVal(False))
        obs.append(Ob("registers", z3.And(*regs_ok) if regs_ok else True, site))
        real_arrays = ex._app_arrays[APP]._arrays
        arr_ok = [z3.BoolVal(set(real_arrays) == set(ref.arrays))]
        for a in ref.arrays:
            if a in real_arrays:
                arr_ok.append(EQ(list(real_arrays[a]), list(ref.arrays[a])))
        obs.append(Ob("arrays", z3.And(*arr_ok), site))
        sm = ex._shared_memories[APP]
        sh_ok = []
        for bank in RegisterName:
            grp = sm._registers[bank]._register
            for idx in set(grp) | {i for (b, i) in ref.shared_regs if b == bank.name}:
                sh_ok.append(EQ(grp.get(idx), ref.shared_regs.get((bank.name, idx))))
        obs.append(Ob("shared_registers", z3.And(*sh_ok) if sh_ok else True, site))
        sa = sm._arrays._arrays
        sha_ok = [z3.BoolVal(set(sa) == set(ref.shared_arrays))]
        for a in ref.shared_arrays:
            if a in sa and not ref.shared_dirty.get(a):
                # compared only while the array was not written after its last ret_arr: an in-process controller hands the
                # host the live list (the SDK relies on that), a message-based one a snapshot; the property fixes neither
                sha_ok.append(EQ(list(sa[a]), list(ref.shared_arrays[a])))
        obs.append(Ob("shared_arrays", z3.And(*sha_ok), site))
        um = ex._qubit_unit_modules[APP]
        obs.append(Ob("unit_module", [x is not None for x in um] == ref.unit, site))
        phys = [x for x in um if x is not None]
        obs.append(Ob("physical_addresses_distinct_and_reserved", len(set(phys)) == len(phys) and set(phys) <= set(ex._used_physical_qubit_addresses), site,
                      info={"unit_module": repr(list(um)), "reserved": repr(sorted(ex._used_physical_qubit_addresses))}))
        mapped = [x for x in um if x is not None]
        obs.append(Ob("physical_qubits_in_use", len(set(mapped)) == len(mapped) and set(mapped) == set(ex._used_physical_qubit_addresses), site))
        return obs

    return body


# ----------------------------------------------------------------------------- work items

def P(k, pool):
    return {"pool": k, "of": pool}


def step_specs(tier):
    """(a) one instruction from an arbitrary state, every aliasing pattern of its register operands"""
    p4 = POOL4
    p = POOL4 if tier == "thorough" else POOL3
    E = lambda a, k, pool: {"entry": [a, P(k, pool)]}  # noqa
    S = []
    S.append({"prog": [["set", P(0, p4), {"sym": "k"}]]})
    for mn in ("add", "sub"):
        S.append({"prog": [[mn, P(0, p4), P(1, p4), P(2, p4)]]})
    for mn in ("addm", "subm"):
        S.append({"prog": [[mn, P(0, p), P(1, p), P(2, p), P(3, p)]]})
    S.append({"prog": [["array", P(0, p4), {"addr": 0}]], "arrays": {0: 1}})
    S.append({"prog": [["store", P(0, p4), E(0, 1, p4)]], "arrays": {0: 2}})
    S.append({"prog": [["load", P(0, p4), E(0, 1, p4)]], "arrays": {0: 2}})
    S.append({"prog": [["undef", E(0, 0, p4)]], "arrays": {0: 2}})
    S.append({"prog": [["lea", P(0, p4), {"addr": 5}]]})
    S.append({"prog": [["jmp", {"tgt": 1}]]})
    for mn in ("bez", "bnz"):
        S.append({"prog": [[mn, P(0, p4), {"tgt": 1}]]})
    for mn in ("beq", "bne", "blt", "bge"):
        S.append({"prog": [[mn, P(0, p4), P(1, p4), {"tgt": 1}]]})
    S.append({"prog": [["qalloc", P(0, p4)]], "qubits": True})
    S.append({"prog": [["qfree", P(0, p4)]], "qubits": True})
    S.append({"prog": [["ret_reg", P(0, p4)]]})
    S.append({"prog": [["ret_arr", {"addr": 0}]], "arrays": {0: 2}})
    return S


FORMS = [
    ["set", "R0", {"sym": "k"}], ["set", "R1", {"sym": "k2"}], ["add", "R0", "R0", "R1"], ["sub", "R1", "R0", "R1"],
    ["addm", "R0", "R0", "R1", "R2"], ["subm", "R1", "R1", "R0", "R2"],
    ["array", "R2", {"addr": 0}], ["store", "R0", {"entry": [0, "R1"]}], ["load", "R0", {"entry": [0, "R1"]}],
    ["undef", {"entry": [0, "R1"]}], ["lea", "R1", {"addr": 0}],
    ["jmp", {"tgt": 0}], ["bez", "R0", {"tgt": 0}], ["bnz", "R1", {"tgt": 0}], ["beq", "R0", "R1", {"tgt": 0}],
    ["bne", "R0", "R1", {"tgt": 0}], ["blt", "R0", "R1", {"tgt": 0}], ["bge", "R0", "R1", {"tgt": 0}],
    ["qalloc", "R1"], ["qfree", "R1"], ["ret_reg", "R0"], ["ret_arr", {"addr": 0}],
]


def with_targets(forms, n):
    out = []
    for f in forms:
        f = [dict(o, tgt=n) if isinstance(o, dict) and "tgt" in o else o for o in f]
        out.append(f)
    return out


def _spec(prog, second=None, alen=1):
    """(b)-specs: registers start defined (definedness patterns are (a)'s subject); arrays / unit-module occupancy are
    enumerated only when the program touches them"""
    mns = {l[0] for l in prog + (second or [])}
    # R2 is only read in FORMS (modulus / array length): enumerated over -1..3 so that multi-instruction programs stay in
    # linear arithmetic (a symbolic modulus is (a)'s subject)
    sp = {"prog": prog, "undef_regs": False, "small_regs": {"R2": [-1, 3]}}
    if second:
        sp["second"] = second
    if mns & {"array", "store", "load", "undef", "ret_arr"}:
        sp["arrays"] = {0: alen}
    if mns & {"qalloc", "qfree"}:
        sp["qubits"] = True
    return sp


def program_specs(tier, seed):
    """(b) fetch loop and unstructured jumps: all programs of N slots over FORMS, targets anywhere in 0..N"""
    S = []
    n = 2
    forms = with_targets(FORMS, n)
    for a in forms:
        for b in forms:
            S.append(_spec([a, b]))
    # two subroutines back to back on the same application
    pairs = [(["set", "R0", {"sym": "k"}], ["add", "R0", "R0", "R1"]), (["array", "R2", {"addr": 0}], ["store", "R0", {"entry": [0, "R1"]}]),
             (["qalloc", "R1"], ["qalloc", "R1"]), (["qalloc", "R1"], ["qfree", "R1"]), (["store", "R0", {"entry": [0, "R1"]}], ["ret_arr", {"addr": 0}]),
             (["ret_arr", {"addr": 0}], ["store", "R0", {"entry": [0, "R1"]}]), (["jmp", {"tgt": 1}], ["ret_reg", "R0"]),
             (["load", "R0", {"entry": [0, "R1"]}], ["ret_reg", "R0"])]
    for a, b in pairs:
        for c in with_targets(FORMS, 1)[:11]:
            S.append(_spec([a], [b, c]))
    # qubit life cycles: allocate / free / allocate again in every order over three virtual IDs (enumerated 0..2, any initial occupancy
    # of a unit module of 3): a legal program never faults, an illegal one faults at the right line, also across two subroutines
    A, F = "qalloc", "qfree"
    cycles = [[(A, "R0"), (A, "R1"), (F, "R0"), (A, "R3"), (F, "R1"), (F, "R3")],
              [(A, "R0"), (F, "R0"), (A, "R1"), (A, "R3"), (F, "R3"), (F, "R1")],
              [(A, "R0"), (A, "R1"), (A, "R3"), (F, "R1"), (A, "R1"), (F, "R0")],
              [(F, "R0"), (A, "R1"), (A, "R0"), (F, "R1"), (A, "R3"), (F, "R0")]]
    for cyc in cycles:
        for cut in (None, 2, 4):
            lines = [[mn, r] for mn, r in cyc]
            sp = {"prog": lines if cut is None else lines[:cut], "undef_regs": False, "qubits": True, "unit": 3,
                  "small_regs": {"R0": [0, 2], "R1": [0, 2], "R3": [0, 2]}}
            if cut is not None:
                sp["second"] = lines[cut:]
            S.append(sp)
    rnd = random.Random(seed)
    if tier == "thorough":
        forms3 = with_targets(FORMS, 3)
        seen = set()
        # all programs of three slots whose first slot is a jump/branch, plus seeded samples of 3 and 4 slots
        for a in [f for f in forms3 if f[0] in ("jmp", "bez", "beq", "blt", "bne", "bge", "bnz")]:
            for b in forms3:
                for c in forms3[::3]:
                    S.append(_spec([a, b, c]))
        forms4 = with_targets(FORMS, 4)
        for _ in range(1500):
            k = rnd.choice([3, 4])
            fs = forms3 if k == 3 else forms4
            prog = [rnd.choice(fs) for _ in range(k)]
            key = repr(prog)
            if key in seen:
                continue
            seen.add(key)
            S.append(_spec(prog, alen=2))
    return S


def work(spec):
    ex = Explorer(max_paths=60000, budget_s=300)
    ex.run(make_body(spec))
    res = worker_result(ex, samples=[{"prog": spec["prog"], "second": spec.get("second"), "paths": ex.stats.paths}])
    for c in res["cexs"]:
        c["info"] = {"spec": spec, "detail": c["info"]}
    return res


def replay(harness, cex):
    spec = cex["info"]["spec"]
    res = run_concrete(make_body(spec), cex["values"])
    bad = [(lab, site) for lab, ok, site, _ in res if not ok and lab == cex["label"]]
    allbad = [(lab, info) for lab, ok, site, info in res if not ok]
    return bool(bad), f"concrete run of the real Executor vs. reference: failing {allbad}; program {spec['prog']} inputs {cex['values']}"


def main(tier, seed):
    rep = Report(PID, tier, seed,
                 "bounded symbolic execution of the real Executor (execute_subroutine and every classical handler) from a symbolic "
                 "initial state; final state / fault behaviour compared with an independent reference interpreter as z3 formulas "
                 "over unbounded integers (QF_LIA/NIA); counterexamples replayed on plain ints")
    rep.bounds = ["(a) one instruction from an arbitrary state: every core classical/array/alloc instruction, every aliasing pattern of "
                  "its register operands over a pool covering all four banks, every definedness pattern of the registers and array "
                  "entries read, array lengths 0..2 or undeclared, unit module of 2 with every occupancy, all data values symbolic",
                  "(b2) 12 qubit life-cycle programs (6 qalloc/qfree over three virtual IDs 0..2, unit module of 3 with every initial occupancy, in one or two subroutines)", "(b) all programs of 2 slots over 22 instruction forms with branch targets anywhere in 0..N, step bound 12, all data symbolic "
                  "except the modulus/array-length register which is enumerated over -1..3 (linear arithmetic); two "
                  "subroutines back to back on the same application"
                  + ("; 3-slot programs starting with a branch and 1500 seeded 3/4-slot programs" if tier == "thorough" else "")]
    rep.outside = ["programs longer than the bound / more than 12 steps", "negative indices, branch targets outside 0..len, comparing or "
                   "branching on undefined registers, undefined modulus (behaviour the statement does not name)",
                   "hardware mode (get_is_using_hardware() is False: integers are unbounded)", "symbolic array lengths above 4"]
    rep.stubs = ["harness Executor subclass concretises index / qubit-address / array-length values before they reach list indexing "
                 "(all values >= len are represented by len: list indexing raises IndexError for each of them)",
                 "float rotation angle stubbed to 0.0 (unused)", "host-visible array contents compared only while the array has not been written after its last ret_arr (live-list vs snapshot is deployment specific)"]
    steps = step_specs(tier)
    progs = program_specs(tier, seed)
    for name, specs in (("step", steps), ("programs", progs)):
        for r in pmap(work, specs, chunksize=4 if name == "programs" else 1):
            rep.merge_worker(name, r)
        rep.section(name, None, specs=len(specs))
    ex = Explorer(max_paths=3000, budget_s=90)
    ex.run(make_body({"prog": [["add", "R0", "R0", "R1"]]}, falsify=True))
    rep.witness("add with a falsified register oracle", any(c.label == "registers" for c in ex.cexs))

    def one():
        Explorer(max_paths=4, budget_s=30).run(make_body({"prog": [["array", "R2", {"addr": 0}], ["store", "R0", {"entry": [0, "R1"]}]], "arrays": {0: 1}}))
        Explorer(max_paths=4, budget_s=30).run(make_body({"prog": [["qalloc", "R1"], ["subm", "R1", "R1", "R0", "R2"]], "second": [["ret_reg", "R0"], ["ret_arr", {"addr": 0}]],
                                  "arrays": {0: 1}, "qubits": True}))
    rep.functions_encoded |= trace_functions(one)
    return rep.finish(replay)
