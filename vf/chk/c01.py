"""C01 -- binary subroutine codec is lossless and uniquely decodable per flavour.

(a) tables: per flavour, no two instruction classes share an opcode or a mnemonic and the
    flavour's lookup tables return the class itself (one z3 query per clause, witness = model).
(b) round trip: the real ``bytes(Subroutine)`` -> ``deserialize(raw, flavour)`` runs on symbolic
    operands (pure QF_BV through the ctypes model, tagged bytes); obligation: same classes, equal
    operands, equal app id and version -- for every operand valuation inside the encodable ranges.
"""
import itertools
import time

import z3

from .. import codec
from ..codec import (BANKS, EQV, OpMaker, add_bv_inputs, eq_operand, flavour_classes, make_instr,
                     n_regs, shape_kinds, subprocess_replay)
from ..cmodel import Tags
from ..common import Report, pmap, trace_functions, worker_result
from ..symx import Explorer, Ob, PathAbort, run_concrete

from netqasm.lang.instr import DebugInstruction  # noqa: E402
from netqasm.lang.instr import flavour as flavour_mod  # noqa: E402
from netqasm.lang.parsing import deserialize  # noqa: E402
from netqasm.lang.subroutine import Subroutine  # noqa: E402

PID = "C01"
ITEM_BUDGET_S = 60       # per (flavour, classes) item; main() raises it for the thorough tier
DEADLINE = None      # set by main() before the workers are forked: wall-clock cap of the whole round-trip stage
FLAVS = ("vanilla", "nv", "reids")


def _flav_obj(name, fl):
    return fl[name]


def bank_assignments(nreg, tier):
    if nreg == 0:
        return [()]
    if nreg <= 3 or tier == "thorough":
        return list(itertools.product(range(4), repeat=nreg))
    out = set()
    for b in range(4):
        out.add(tuple([b] * nreg))
        out.add(tuple((b + i) % 4 for i in range(nreg)))
        for pos in range(nreg):
            out.add(tuple(((b + 1) % 4 if i == pos else b) for i in range(nreg)))
    return sorted(out)


# ----------------------------------------------------------------------------- (b) round trip body

def make_body(flav_name, cls_names, banks_per_slot, falsify=False):
    """harness body: subroutine of len(cls_names) instructions of flavour flav_name"""

    def body(inp):
        add_bv_inputs(inp)
        if codec.MODEL:
            Tags.reset()
        # all three flavours are instantiated, in the order a multi-flavour process would
        fl = codec.flavours()
        flav = fl[flav_name]
        by_name = {c.__name__: c for c in flavour_classes(flav_name)}
        app = inp.bv("app_id", 16, False)
        v0 = inp.bv("ver0", 8, False)
        v1 = inp.bv("ver1", 8, False)
        instrs = []
        for slot, (cn, banks) in enumerate(zip(cls_names, banks_per_slot)):
            cls = by_name[cn]
            mk = OpMaker(inp, f"s{slot}", banks)
            instrs.append(make_instr(cls, shape_kinds(cls), mk))
        site0 = {"flavour": flav_name}
        try:
            sub = Subroutine(instructions=instrs, app_id=app, netqasm_version=(v0, v1))
            raw = bytes(sub)
        except PathAbort:
            raise
        except Exception as e:  # noqa
            return [Ob("encode", False, dict(site0, cls=cls_names[0], exc=type(e).__name__), info=repr(e)[:200])]
        try:
            back = deserialize(raw, flavour=flav)
        except PathAbort:
            raise
        except Exception as e:  # noqa
            return [Ob("decode", False, dict(site0, cls=cls_names[0], exc=type(e).__name__), info=repr(e)[:200])]
        obs = []
        ver = back.netqasm_version
        meta_ok = z3.And(EQV(back.app_id, app), z3.BoolVal(len(ver) == 2),
                         EQV(ver[0], v0) if len(ver) == 2 else z3.BoolVal(False),
                         EQV(ver[1], v1) if len(ver) == 2 else z3.BoolVal(False))
        if falsify:
            meta_ok = z3.And(meta_ok, z3.Not(EQV(app, 0xBEEF)))
        obs.append(Ob("meta", meta_ok, dict(site0, cls="<header>")))
        obs.append(Ob("length", len(back.instructions) == len(instrs), dict(site0, cls="<subroutine>")))
        for slot, (orig, b) in enumerate(zip(instrs, back.instructions)):
            st = dict(site0, cls=type(orig).__name__)
            same = type(orig) is type(b)
            obs.append(Ob("class", same, dict(st, decoded_as=type(b).__name__) if not same else st))
            if same:
                oo, bo = orig.operands, b.operands
                obs.append(Ob("operands", z3.And(z3.BoolVal(len(oo) == len(bo)),
                                                 *[eq_operand(x, y) for x, y in zip(oo, bo)]), st))
        # the same Subroutine object encoded a second time after its app id was changed through the setter (e.g. re-sent for another
        # application): the bytes must follow the object, not what was encoded before
        try:
            app2 = inp.bv("app_id_2", 16, False)
            sub.app_id = app2
            back2 = deserialize(bytes(sub), flavour=flav)
            obs.append(Ob("meta_after_reencode", EQV(back2.app_id, app2), dict(site0, cls="<header>")))
            obs.append(Ob("length_after_reencode", len(back2.instructions) == len(instrs), dict(site0, cls="<subroutine>")))
        except PathAbort:
            raise
        except Exception as e:  # noqa
            obs.append(Ob("encode", False, dict(site0, cls="<second encoding>", exc=type(e).__name__), info=repr(e)[:200]))
        return obs

    return body


def work_roundtrip(item):
    flav_name, cls_names, banks_list = item
    ex = Explorer(max_paths=1500, budget_s=8, max_cex=12)
    samples = []
    for banks_per_slot in banks_list:
        ex.run(make_body(flav_name, cls_names, banks_per_slot))
    for c in ex.cexs:
        c.site = dict(c.site)
        c.info = {"flavour": flav_name, "classes": list(cls_names), "info": c.info}
    if ex.stats.paths:
        samples.append({"flavour": flav_name, "classes": list(cls_names), "bank_assignments": len(banks_list),
                        "paths": ex.stats.paths})
    res = worker_result(ex, samples=samples)
    # remember the bank assignment of each cex for the replay
    return res


def work_roundtrip_one(item):
    """one (flavour, classes) item; each bank assignment explored; cex carries its harness args"""
    flav_name, cls_names, banks_list = item
    total = None
    out_cex = []
    ex_all = Explorer()
    t_item = time.time()
    for banks_per_slot in banks_list:
        # the unchanged tree needs a handful of paths per bank assignment; the caps only matter when a change makes the code
        # branch on decoded operand values (e.g. a cache keyed by them) -- violations found before the cap are still reported
        if time.time() - t_item > ITEM_BUDGET_S or (DEADLINE is not None and time.time() > DEADLINE):
            ex_all.aborts.append("item time budget exceeded; remaining bank assignments not explored")
            break
        ex = Explorer(max_paths=1500, budget_s=8, max_cex=12)
        ex.run(make_body(flav_name, cls_names, banks_per_slot))
        ex_all.stats.add(ex.stats)
        ex_all.aborts += ex.aborts
        ex_all.unknowns += ex.unknowns
        for c in ex.cexs:
            d = c.as_dict()
            d["info"] = {"flavour": flav_name, "classes": list(cls_names), "banks": [list(b) for b in banks_per_slot],
                         "detail": c.info}
            out_cex.append(d)
    res = worker_result(ex_all, samples=[{"flavour": flav_name, "classes": list(cls_names),
                                          "bank_assignments": len(banks_list), "paths": ex_all.stats.paths}])
    res["cexs"] = out_cex
    return res


# ----------------------------------------------------------------------------- (a) tables

def check_tables(rep: Report):
    """Distinct opcodes / mnemonics per flavour, lookup tables return the class (z3 decides; witness = model)"""
    t0 = time.time()
    from ..symx import Stats
    st = Stats()
    fl = codec.flavours()
    for name in FLAVS:
        classes = flavour_classes(name)
        flav = fl[name]
        n = len(classes)
        idf = z3.Function("opcode", z3.IntSort(), z3.IntSort())
        mnf = z3.Function("mnemonic", z3.IntSort(), z3.IntSort())
        mn_ids = {}
        s = z3.Solver()
        for i, c in enumerate(classes):
            s.add(idf(i) == int(c.id))
            s.add(mnf(i) == mn_ids.setdefault(c.mnemonic, len(mn_ids)))
        i, j = z3.Ints("i j")
        s.add(0 <= i, i < j, j < n)
        for what, fn in (("opcode", idf), ("mnemonic", mnf)):
            # enumerate all clashing pairs (each one is a separate counterexample site)
            s.push()
            s.add(fn(i) == fn(j))
            while True:
                st.obligations += 1
                r = str(s.check())
                if r == "unsat":
                    st.q_unsat += 1
                    st.discharged += 1
                    break
                if r != "sat":
                    st.q_unknown += 1
                    rep.add_inconclusive(f"tables: solver {r}")
                    break
                st.q_sat += 1
                st.cex += 1
                m = s.model()
                a, b = m[i].as_long(), m[j].as_long()
                pair = sorted([classes[a].__name__, classes[b].__name__])
                rep.add_cex("tables", {"label": "distinct_" + what,
                                       "site": {"flavour": name, "pair": pair},
                                       "values": {"flavour": name, "i": a, "j": b},
                                       "info": {"value": classes[a].id if what == "opcode" else classes[a].mnemonic}})
                s.add(z3.Not(z3.And(i == a, j == b)))
            s.pop()
        # lookup tables
        for c in classes:
            st.obligations += 2
            ok1 = flav.id_map.get(c.id) is c
            ok2 = flav.name_map.get(c.mnemonic) is c
            for ok, what in ((ok1, "id_map"), (ok2, "name_map")):
                if ok:
                    st.discharged += 1
                else:
                    st.cex += 1
                    rep.add_cex("tables", {"label": "lookup_" + what, "site": {"flavour": name, "cls": c.__name__},
                                           "values": {"flavour": name, "cls": c.__name__}, "info": None})
        st.paths += 1
    st.solver_s = time.time() - t0
    rep.section("tables", st, flavours=list(FLAVS))


def replay_tables(cex):
    v = cex["values"]
    name = v["flavour"]
    classes = flavour_classes(name)
    if cex["label"].startswith("distinct_"):
        a, b = classes[v["i"]], classes[v["j"]]
        what = cex["label"].split("_", 1)[1]
        same = (a.id == b.id) if what == "opcode" else (a.mnemonic == b.mnemonic)
        return same, f"{name}: {a.__name__} and {b.__name__} share {what} {a.id if what == 'opcode' else a.mnemonic!r}"
    flav = codec.flavours()[name]
    c = {k.__name__: k for k in classes}[v["cls"]]
    if cex["label"] == "lookup_id_map":
        got = flav.id_map.get(c.id)
    else:
        got = flav.name_map.get(c.mnemonic)
    return got is not c, f"{name}: lookup of {c.__name__} returns {getattr(got, '__name__', got)}"


# ----------------------------------------------------------------------------- replay

def replay(harness, cex):
    if harness == "tables":
        return replay_tables(cex)
    if codec.MODEL:
        return subprocess_replay(PID, harness, cex)
    info = cex["info"]
    body = make_body(info["flavour"], info["classes"], [tuple(b) for b in info["banks"]])
    res = run_concrete(body, cex["values"])
    bad = [(lab, site) for lab, ok, site, _ in res if not ok and lab == cex["label"]]
    anybad = [(lab, site) for lab, ok, site, _ in res if not ok]
    return bool(bad), f"concrete run with real ctypes: failing obligations {anybad}; inputs {cex['values']}"


# ----------------------------------------------------------------------------- main

def representative_per_struct(classes):
    seen = {}
    for c in classes:
        k = tuple(shape_kinds(c))
        seen.setdefault(k, c)
    return list(seen.values())


def main(tier, seed):
    rep = Report(PID, tier, seed,
                 "bounded symbolic execution of the real encoder/decoder (bytes(Subroutine) -> deserialize) on bit-vector "
                 "operands through a ctypes model whose layout is read from real ctypes; every path obligation decided by z3 "
                 "(QF_BV); opcode/mnemonic tables decided by z3 over the real class lists; counterexamples replayed with real ctypes")
    rep.bounds = ["every instruction class of every flavour alone (N=1), all operand values in range symbolic",
                  "register banks: all 4^k assignments for k<=3 register operands; "
                  + ("all 4^k for k=4,5 too" if tier == "thorough" else "uniform, rotating and one-position-differs assignments for k=4,5"),
                  "sequences: all ordered pairs (N=2) of one representative class per operand layout"
                  + ("; N=3 and N=4 sequences: every class in slot 0 followed by representatives" if tier == "thorough" else ""),
                  "app id 16 bit, version bytes 8 bit, symbolic"]
    rep.outside = ["sequences longer than the stated N (decoder stride is exercised up to N only)",
                   "DebugInstruction (serialises to b'' by design)", "operands outside their encodable ranges (C16)"]
    rep.stubs = ["ctypes replaced by vf/cmodel.py inside netqasm.lang.encoding, netqasm.lang.parsing.binary, netqasm.backend.messages"]
    # translator validation of the ctypes model
    from . import _cmodel_validate
    nv_checked, problems = _cmodel_validate.validate(seed)
    rep.extra["cmodel_validation"] = {"classes_checked": nv_checked, "problems": problems}
    for p in problems:
        rep.add_inconclusive("ctypes model disagrees with real ctypes: " + p)

    check_tables(rep)

    items = []
    for fname in FLAVS:
        classes = flavour_classes(fname)
        for c in classes:
            if issubclass(c, DebugInstruction):
                continue
            kinds = shape_kinds(c)
            items.append((fname, (c.__name__,), [(b,) for b in bank_assignments(n_regs(kinds), tier)]))
        reps = representative_per_struct(classes)
        for a in reps:
            for b in reps:
                ba = bank_assignments(n_regs(shape_kinds(a)), "quick")[:2]
                bb = bank_assignments(n_regs(shape_kinds(b)), "quick")[-2:]
                items.append((fname, (a.__name__, b.__name__), [(x, y) for x in ba for y in bb][:2]))
        if tier == "thorough":
            for c in classes:
                for k in (3, 4):
                    tail = [reps[(i * 5 + len(c.__name__)) % len(reps)] for i in range(k - 1)]
                    names = (c.__name__,) + tuple(t.__name__ for t in tail)
                    banks = [tuple(bank_assignments(n_regs(shape_kinds(x)), "quick")[1]) if n_regs(shape_kinds(x)) else ()
                             for x in (c,) + tuple(tail)]
                    items.append((fname, names, [tuple(banks)]))
    global DEADLINE
    global ITEM_BUDGET_S
    ITEM_BUDGET_S = 1800 if tier == "thorough" else 60
    DEADLINE = time.time() + (5400 if tier == "thorough" else 600)
    results = pmap(work_roundtrip_one, items)
    for r in results:
        rep.merge_worker("roundtrip", r)
    rep.section("roundtrip", None, items=len(items))

    # vacuity guard: falsified oracle must be refuted and reproduce
    ex = Explorer(max_paths=3000, budget_s=90)
    ex.run(make_body("vanilla", ("SetInstruction",), [(0,)], falsify=True))
    ok = any(c.label == "meta" and c.values.get("app_id") == 0xBEEF for c in ex.cexs)
    rep.witness("roundtrip with oracle 'app id != 0xBEEF'", ok, f"cex={[c.values for c in ex.cexs][:1]}")

    def one_path():
        if codec.MODEL:
            e = Explorer(max_paths=4, budget_s=30)
            e.run(make_body("vanilla", ("StoreInstruction", "WaitAllInstruction"), [(0, 1), (2, 3)]))
    rep.functions_encoded |= trace_functions(one_path)
    return rep.finish(replay)
