"""C09 -- SDK and controller agree on which virtual qubits exist.

Host histories (explorer choice points) of qubit creation, gates, in-place / destructive measurement,
free, reset, flush, create_keep / recv_keep, sequential keep with post routine and EPR contexts are run
through the real SDK -> assembler (-> NV transpiler) -> Executor pipeline for several qubit budgets and
hardware configurations.  The host keeps at most the configured number of qubits alive (one fewer on
single-communication-qubit hardware).  Obligations: no instruction faults, after every flush the
connection's active qubits are exactly the controller's allocated virtual qubits, and freed IDs are
handed out again.  Measurement outcomes and response payloads are symbolic (they keep every
data-dependent branch open); allocation itself is shape-driven.
"""
import z3

from ..common import Report, pmap, trace_functions, worker_result
from ..netharness import Deadlock, NetExecutor, ok_k
from ..pipeline import PipeConnection
from ..symx import Explorer, Infeasible, Ob, PathAbort, run_concrete

from netqasm.sdk.build_types import GenericHardwareConfig, NVHardwareConfig
from netqasm.sdk.connection import DebugConnection
from netqasm.sdk.epr_socket import EPRSocket
from netqasm.sdk.qubit import Qubit
from netqasm.sdk.transpile import NVSubroutineTranspiler

PID = "C09"
APP = 0


def mk_conn(hw, budget, transpile, outcomes):
    DebugConnection.node_ids = {"app": 0, "Bob": 1}
    sock = EPRSocket("Bob")
    ex = NetExecutor("ctrl", outcomes=list(outcomes))
    ex.responders = []          # one per EPR operation of the history, in program order; answers are produced when the request instruction runs
    ex.check_alloc = True       # gates and measurements on a virtual qubit that is not allocated fault, as on a real back end
    cfg = NVHardwareConfig(budget) if hw == "nv" else GenericHardwareConfig(budget)
    kw = {"compiler": NVSubroutineTranspiler} if transpile else {}
    conn = PipeConnection("app", executor=ex, epr_sockets=[sock], hardware_config=cfg, max_qubits=budget, **kw)
    return conn, sock, ex


def menu(live, limit, alphabet=None):
    opts = _menu(live, limit)
    if alphabet is not None:
        opts = [o for o in opts if o[0] in alphabet]
    return opts


def _menu(live, limit):
    opts = []
    if len(live) < limit:
        opts.append(("new",))
    for i in range(len(live)):
        opts.append(("meas", i))
        opts.append(("meas_inplace", i))
        opts.append(("free", i))
    if len(live) >= 2:
        opts.append(("cnot", 0, len(live) - 1))
    if live:
        opts.append(("gate", 0))
        opts.append(("reset", len(live) - 1))
    opts.append(("flush",))
    for n in (1, 2):
        if len(live) + n <= limit:
            opts.append(("create_keep", n))
            opts.append(("recv_keep", n))
    if len(live) + 1 <= limit:
        opts.append(("recv_keep_fid", 1))
        opts.append(("create_keep_fid", 1))
    if len(live) + 2 <= limit:
        opts.append(("recv_keep_fid", 2))
    if len(live) + 1 <= limit:
        opts.append(("keep_seq", 2))
        opts.append(("create_context", 1))
        opts.append(("recv_context_seq", 2))
    return opts


def fault_class(e):
    m = str(e)
    for key, name in (("is already allocated", "double_allocation"), ("is not allocated and cannot be freed", "free_unallocated"),
                      ("outside the unit module", "outside_unit_module"), ("not within the allocated unit module", "outside_unit_module"),
                      ("list index out of range", "outside_unit_module"), ("was not allocated", "gate_on_unallocated_qubit"), ("wait instruction blocks", "deadlock"),
                      ("instructions executed", "diverged"), ("wait polls", "deadlock")):
        if key in m:
            return name
    return type(e).__name__


ALLOCATING = {"meas", "meas_inplace", "new", "create_keep", "recv_keep", "recv_keep_fid", "create_keep_fid", "keep_seq", "create_context", "recv_context_seq"}
STALE_MAKERS = {"free", "keep_seq", "create_context", "recv_context_seq"}


def alloc_after_stale(hist):
    """the two recorded findings (handles that stay active after free / after sequential and context requests) can only make an
    INSTRUCTION fault once something is allocated -- or, on NV, relocated for a measurement -- after the operation that left the stale handle"""
    first = next((i for i, h in enumerate(hist) if h[0] in STALE_MAKERS), None)
    return first is not None and any(h[0] in ALLOCATING for h in hist[first + 1:])


def two_qubit_gate_in(hist):
    return any(h[0] == "cnot" for h in hist)


def retry_in(hist):
    return any(h[0] in ("recv_keep_fid", "create_keep_fid") for h in hist)


def family(hist):
    """which recorded defect families a history can trigger (by the operation kinds it contains)"""
    kinds = {h[0] for h in hist}
    fam = []
    if "free" in kinds:
        fam.append("free")
    if kinds & {"keep_seq", "create_context", "recv_context_seq"}:
        fam.append("sequential_or_context")
    return "+".join(fam) or "none"


def make_body(spec, falsify=False):
    hw, budget, transpile, depth, first = spec["hw"], spec["budget"], spec["transpile"], spec["depth"], spec.get("first")
    limit = budget - 1 if hw == "nv" else budget

    def body(inp):
        outcomes = [inp.bit(f"m{j}") for j in range(10)]
        conn, sock, ex = mk_conn(hw, budget, transpile, outcomes)
        ex.eager = bool(spec.get("eager"))
        live = []
        hist = []
        site0 = {"hw": hw, "transpile": transpile, "eager": bool(spec.get("eager"))}
        obs = []
        pending_deliveries = 0

        def post(c, q, pair):
            q.measure()

        def do_flush(tag):
            nonlocal pending_deliveries
            try:
                conn.flush()
            except (PathAbort, Infeasible):
                raise
            except Exception as e:  # noqa
                return [Ob("subroutine_executes_without_fault", False, dict(site0, family=family(hist), fault=fault_class(e), retry=retry_in(hist), two_qubit_gate=two_qubit_gate_in(hist), alloc_after_stale=alloc_after_stale(hist)),
                           info={"history": [list(h) for h in hist], "error": f"{type(e).__name__}: {str(e)[:200]}"})]
            sdk_ids = sorted(q.qubit_id for q in conn.active_qubits)
            ctrl_ids = sorted(v for v, p in enumerate(ex._qubit_unit_modules[APP]) if p is not None)
            want = sorted(q.qubit_id for q in live)
            out = [Ob("active_qubits_equal_controller_allocation", sdk_ids == ctrl_ids, dict(site0, family=family(hist), retry=retry_in(hist)),
                      info={"history": [list(h) for h in hist], "sdk": sdk_ids, "controller": ctrl_ids}),
                   Ob("host_handles_equal_controller_allocation", want == ctrl_ids, dict(site0, family=family(hist), retry=retry_in(hist)),
                      info={"history": [list(h) for h in hist], "alive_handles": want, "controller": ctrl_ids})]
            return out

        for step in range(depth):
            opts = menu(live, limit, spec.get("alphabet"))
            if not opts:
                break
            prefix = spec.get("prefix") or ([first] if first is not None else [])
            if step < len(prefix):
                op = tuple(prefix[step])
                if op not in opts:
                    return []
            else:
                op = opts[inp.choice(f"op{step}", len(opts))]
            hist.append(op)
            k = op[0]
            try:
                if k == "new":
                    used = {q.qubit_id for q in live}
                    q = Qubit(conn)
                    lowest = min(i for i in range(64) if i not in used)
                    live.append(q)
                    # the SDK may relocate other handles on NV; compare after the call
                    obs.append(Ob("freed_id_is_reused", q.qubit_id == lowest or hw == "nv", dict(site0, family=family(hist), retry=retry_in(hist)),
                                  info={"history": [list(h) for h in hist], "got": q.qubit_id, "lowest_free": lowest}))
                elif k == "gate":
                    live[op[1]].H()
                elif k == "cnot":
                    live[op[1]].cnot(live[op[2]])
                elif k == "reset":
                    live[op[1]].reset()
                elif k == "meas":
                    live.pop(op[1]).measure()
                elif k == "meas_inplace":
                    live[op[1]].measure(inplace=True)
                elif k == "free":
                    live.pop(op[1]).free()
                elif k == "flush":
                    r = do_flush(step)
                    obs += r
                    if r and r[0].label == "subroutine_executes_without_fault":
                        return obs
                elif k in ("create_keep", "recv_keep"):
                    n = op[1]
                    qs = getattr(sock, k)(number=n)
                    live += list(qs)
                    bells = [(inp.int(f"bell{step}_{i}", 0, 3) if n == 1 and step < 2 else 0) for i in range(n)]
                    ex.responders.append(lambda t, n=n, c=(k == "create_keep"), bells=bells:
                                         [ok_k(ex, creator=c, purpose_id=0, remote_node_id=1, bell_state=bells[i]) for i in range(n)])
                elif k in ("recv_keep_fid", "create_keep_fid"):
                    # generation with a fidelity (= duration) limit: the request is repeated (at most twice here) while the reported
                    # duration of the last pair is above the limit; the duration of the first try is symbolic, so both outcomes are explored
                    n = op[1]
                    creator = k == "create_keep_fid"
                    qs = getattr(sock, "create_keep" if creator else "recv_keep")(number=n, min_fidelity_all_at_end=80, max_tries=2)
                    live += list(qs)
                    dur = inp.int(f"dur{step}", 0, 60000)
                    ex.responders.append(lambda t, n=n, c=creator, dur=dur:
                                         [ok_k(ex, creator=c, purpose_id=0, remote_node_id=1, goodness=(dur if (t == 0 and i == n - 1) else 0)) for i in range(n)])
                elif k == "keep_seq":
                    sock.create_keep(number=op[1], sequential=True, post_routine=post)
                    ex.responders.append(lambda t, n=op[1]: [ok_k(ex, creator=True, purpose_id=0, remote_node_id=1) for _ in range(n)])
                elif k == "create_context":
                    with sock.create_context(number=op[1]) as (q, pair):
                        q.measure()
                    ex.responders.append(lambda t, n=op[1]: [ok_k(ex, creator=True, purpose_id=0, remote_node_id=1) for _ in range(n)])
                elif k == "recv_context_seq":
                    with sock.recv_context(number=op[1], sequential=True) as (q, pair):
                        q.measure()
                    ex.responders.append(lambda t, n=op[1]: [ok_k(ex, creator=False, purpose_id=0, remote_node_id=1, bell_state=0) for _ in range(n)])
            except (PathAbort, Infeasible):
                raise
            except Exception as e:  # noqa
                obs.append(Ob("sdk_builds_within_budget", False, dict(site0, family=family(hist), retry=retry_in(hist), exc=type(e).__name__,
                                                                      multi_pair_keep=any(h[0] in ("create_keep", "recv_keep", "recv_keep_fid", "create_keep_fid") and h[1] >= 2 for h in hist)),
                              info={"history": [list(h) for h in hist], "error": f"{type(e).__name__}: {str(e)[:200]}"}))
                return obs
        obs += do_flush(depth)
        if falsify:
            obs.append(Ob("active_qubits_equal_controller_allocation", False, site0))
        return obs

    return body


def work(spec):
    ex = Explorer(max_paths=300000, budget_s=1500, max_depth=3000)
    ex.run(make_body(spec))
    res = worker_result(ex, samples=[dict(spec, paths=ex.stats.paths)])
    for c in res["cexs"]:
        c["info"] = {"spec": spec, "detail": c["info"]}
    return res


def replay(harness, cex):
    spec = cex["info"]["spec"]
    res = run_concrete(make_body(spec), cex["values"])
    bad = [(lab, info) for lab, ok, site, info in res if not ok and lab == cex["label"]]
    allbad = [(lab, info) for lab, ok, site, info in res if not ok]
    return bool(bad), f"replayed history on the real SDK and Executor: failing {allbad[:2]}"


def main(tier, seed):
    rep = Report(PID, tier, seed,
                 "bounded exploration (explorer choice points) of host histories through the real SDK, assembler, optional NV transpiler and "
                 "Executor with scripted keep responses; controller faults and the SDK/controller agreement on allocated virtual qubits are "
                 "checked after every flush; outcomes and Bell indices are symbolic. Shape-driven: the verdict is exhaustive over histories "
                 "inside the bound")
    depth = 4 if tier == "thorough" else 3
    configs = []
    budgets = (1, 2, 3, 5) if tier == "thorough" else (2, 3)
    for budget in budgets:
        for hw, tr in (("generic", False), ("nv", False), ("nv", True)):
            if hw == "nv" and budget < 2:
                continue
            configs.append((hw, budget, tr))
    specs = []
    for hw, budget, tr in configs:
        limit = budget - 1 if hw == "nv" else budget
        for op in menu([], limit):
            specs.append({"hw": hw, "budget": budget, "transpile": tr, "depth": depth, "first": list(op)})
    # the same histories with the link layer answering as early as possible (all pairs right after the request instruction)
    for hw, budget, tr in configs[:3]:
        limit = budget - 1 if hw == "nv" else budget
        for op in menu([], limit):
            specs.append({"hw": hw, "budget": budget, "transpile": tr, "depth": depth, "first": list(op), "eager": True})
    # deeper histories over a small alphabet (allocation / relocation logic on NV needs gaps in the id space: create, create,
    # measure the second, create, measure the first, ...); partitioned by their first three operations
    deep_depth = 7 if tier == "thorough" else 6
    alpha = ["new", "meas", "gate", "cnot", "flush"]

    def prefixes(limit, k):
        out = [([], 0)]
        for _ in range(k):
            nxt = []
            for pre, nl in out:
                for op in menu([None] * nl, limit, alpha):
                    nxt.append((pre + [list(op)], nl + (1 if op[0] == "new" else -1 if op[0] == "meas" else 0)))
            out = nxt
        return [p_ for p_, _ in out]
    for hw, budget, tr in ((("nv", 3, False), ("nv", 4, False), ("nv", 4, True), ("generic", 3, False)) if tier == "thorough" else (("nv", 3, False), ("nv", 4, True))):
        limit = budget - 1 if hw == "nv" else budget
        for pre in prefixes(limit, 3):
            specs.append({"hw": hw, "budget": budget, "transpile": tr, "depth": deep_depth, "prefix": pre, "alphabet": alpha})
    # in-place measurements (the handle stays alive after the NV relocation) followed by further allocations
    alpha2 = ["new", "meas_inplace", "meas", "flush"]
    deep2 = 5
    for hw, budget, tr in (("nv", 4, False),):
        for pre in prefixes(budget - 1, 2):
            specs.append({"hw": hw, "budget": budget, "transpile": tr, "depth": deep2, "prefix": pre, "alphabet": alpha2})
    rep.bounds = [f"all histories of {deep2} operations over the alphabet {alpha2} (NV: relocation for an in-place measurement, then further allocations)",
                  f"all histories of {deep_depth} operations over the alphabet {alpha} (NV configurations: relocation chains with gaps in the id space)",
                  f"all histories of {depth} operations (new qubit, H, reset, measure in place / destructively, free, flush, create_keep(1..2), "
                  "recv_keep(1..2), create_keep / recv_keep with min_fidelity_all_at_end (retry loop, symbolic duration), sequential create_keep with post routine, create_context, sequential recv_context) with a final flush, "
                  f"for qubit budgets {list(budgets)} (the statement's 1..5: budgets not listed are outside this tier), generic hardware, NV hardware config, NV config + NVSubroutineTranspiler",
                  "the host keeps at most budget (NV: budget-1) qubits alive; measurement outcomes and Bell indices symbolic",
                  "responses delivered lazily (one per wait poll) and, for the first three configurations, eagerly (all pairs right after the request instruction)"]
    rep.outside = ["histories longer than the bound", "responses arriving in another order than requested (C12)"]
    rep.stubs = ["NetExecutor / RecStack harness; keep responses delivered in order at wait points with the lowest unused physical id"]
    for r in pmap(work, specs):
        rep.merge_worker("histories", r)
    rep.section("histories", None, specs=len(specs))
    ex = Explorer(max_paths=20)
    ex.run(make_body({"hw": "generic", "budget": 2, "transpile": False, "depth": 1}, falsify=True))
    rep.witness("agreement with falsified oracle", len(ex.cexs) > 0)

    def one():
        Explorer(max_paths=60).run(make_body({"hw": "nv", "budget": 3, "transpile": True, "depth": 3, "first": ["new"]}))
    rep.functions_encoded |= trace_functions(one)
    return rep.finish(replay)
