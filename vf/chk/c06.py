"""C06 -- pre-compiled templated subroutines equal direct compilation.

The same host program (DSL of vf/sdkdsl.py with rotation numerators that are Templates) is run twice
through the real pipeline:
  A: ... ; compile() ; [more operations queued] ; Subroutine.instantiate(app_id, values) ; commit_subroutine ; ... ; flush
  B: the same operations written with the values ; flush at the same places
with symbolic template values and surrounding data.  Obligations (z3): same instruction stream sent
to the controller, same controller trace / memory, same host-visible values, same builder
bookkeeping afterwards (pending arrays / registers / measurement registers).
"""
import random

import z3

from ..common import Report, pmap, trace_functions, worker_result
from ..pipeline import PipeConnection, TraceExecutor
from ..sdkdsl import SdkInterp, bind
from ..symx import EQ, Explorer, Infeasible, Ob, PathAbort, run_concrete

from netqasm.lang.operand import Address, ArrayEntry, ArraySlice, Immediate, Register
from netqasm.sdk.transpile import NVSubroutineTranspiler

PID = "C06"
APP = 0
NOUT = 6


def instr_sig(ins):
    """(mnemonic, flat operand values) of an instruction; values may be proxies"""
    vals = []
    for o in ins.operands:
        if isinstance(o, Register):
            vals += [o.name.value, o.index]
        elif isinstance(o, Immediate):
            vals.append(o.value)
        elif isinstance(o, Address):
            vals.append(o.address)
        elif isinstance(o, ArrayEntry):
            vals += [o.address.address, o.index.name.value if isinstance(o.index, Register) else -1,
                     o.index.index if isinstance(o.index, Register) else o.index]
        elif isinstance(o, ArraySlice):
            vals += [o.address.address, o.start.index if isinstance(o.start, Register) else o.start,
                     o.stop.index if isinstance(o.stop, Register) else o.stop]
        else:
            vals.append(repr(o))
    return ins.mnemonic, vals


def run_flow(spec, prog, tvals, outcomes, flow, order):
    ex = TraceExecutor("ctrl", list(outcomes))
    kw = {"compiler": NVSubroutineTranspiler} if spec.get("nv") else {}
    conn = PipeConnection("app", executor=ex, max_qubits=3, **kw)
    sdk = SdkInterp(conn)
    sdk.tvals = tvals
    sdk.tmode = "template" if flow == "A" else "value"
    seg = 0
    pending_sub = None
    for st in prog:
        if st[0] == "compile":
            if flow == "A":
                pending_sub = conn.compile()
            else:
                conn.flush()
        elif st[0] == "commit":
            if flow == "A":
                if pending_sub is not None:
                    names = list(tvals)
                    if order == "reversed":
                        names = names[::-1]
                    pending_sub.instantiate(conn.app_id, {n: tvals[n] for n in names})
                    conn.commit_subroutine(pending_sub)
                    pending_sub = None
        else:
            sdk.step(st, {})
    mm = conn.builder._mem_mgr
    obsv = {
        "streams": [[instr_sig(i) for i in s.instructions] for s in conn.committed],
        "trace": [list(t) for t in ex.trace],
        "ctrl_arrays": {a: list(v) for a, v in ex._app_arrays[APP]._arrays.items()},
        "ctrl_regs": {(b.name, i): v for b, g in ex._registers[APP].items() for i, v in g._register.items()},
        "host_arrays": {n: [sdk.arrays[n][i] for i in range(len(sdk.arrays[n]))] for n in sdk.arrays},
        "host_futs": {k: f.value for k, f in sdk.futs.items()},
        "host_regs": {n: r.value for n, r in sdk.regs.items()},
        "pending_arrays": sorted(a.address for a in mm.get_arrays_to_return()),
        "pending_regs": sorted(str(r) for r in mm.get_registers_to_return()),
        "used_meas_regs": sorted(str(r) for r, u in mm._used_meas_registers.items() if u),
        "active_regs": sorted(str(r) for r in mm._active_registers),
        "pending_cmds": len(conn.builder._pending_commands),
    }
    return obsv


def eq_streams(a, b):
    if len(a) != len(b):
        return z3.BoolVal(False)
    parts = []
    for sa, sb in zip(a, b):
        if len(sa) != len(sb):
            return z3.BoolVal(False)
        for (ma, va), (mb, vb) in zip(sa, sb):
            if ma != mb or len(va) != len(vb):
                return z3.BoolVal(False)
            parts.append(EQ(va, vb))
    return z3.And(*parts) if parts else z3.BoolVal(True)


def eq_dict(a, b):
    if set(a) != set(b):
        return z3.BoolVal(False)
    return z3.And(*[EQ(a[k], b[k]) for k in a]) if a else z3.BoolVal(True)


def make_body(spec, falsify=False):
    def body(inp):
        prog = bind(spec["prog"], inp)
        outcomes = [inp.bit(f"m{j}") for j in range(NOUT)]
        tvals = {n: inp.int(f"t_{n}", 0, 255) for n in spec["templates"]}
        site = {"nv": bool(spec.get("nv")), "shape": spec["shape"]}
        res = {}
        for flow in ("A", "B"):
            try:
                res[flow] = run_flow(spec, prog, tvals, outcomes, flow, spec.get("order", "natural"))
            except (PathAbort, Infeasible):
                raise
            except Exception as e:  # noqa
                return [Ob("flow_raises", False, dict(site, flow=flow, exc=type(e).__name__), info=f"{type(e).__name__}: {str(e)[:300]}")]
        A, B = res["A"], res["B"]
        obs = []
        st = eq_streams(A["streams"], B["streams"])
        if falsify:
            st = z3.And(st, z3.Not(EQ(list(tvals.values())[0], 200)))
        obs.append(Ob("instruction_streams", st, site, info={"A": [len(s) for s in A["streams"]], "B": [len(s) for s in B["streams"]]}))
        tr = z3.BoolVal(len(A["trace"]) == len(B["trace"]))
        if len(A["trace"]) == len(B["trace"]):
            tr = z3.And(*[EQ(x, y) if len(x) == len(y) and x[0] == y[0] else z3.BoolVal(False) for x, y in zip(A["trace"], B["trace"])]) if A["trace"] else z3.BoolVal(True)
        obs.append(Ob("controller_trace", tr, site))
        obs.append(Ob("controller_arrays", eq_dict(A["ctrl_arrays"], B["ctrl_arrays"]), site))
        obs.append(Ob("controller_registers", eq_dict(A["ctrl_regs"], B["ctrl_regs"]), site))
        obs.append(Ob("host_values", z3.And(eq_dict(A["host_arrays"], B["host_arrays"]), eq_dict(A["host_futs"], B["host_futs"]),
                                            eq_dict(A["host_regs"], B["host_regs"])), site))
        for k in ("pending_arrays", "pending_regs", "used_meas_regs", "active_regs", "pending_cmds"):
            obs.append(Ob("connection_state_" + k, A[k] == B[k], site, info={"A": A[k], "B": B[k]}))
        return obs

    return body


# ----------------------------------------------------------------------------- scenarios

def scenarios(tier, seed):
    DECL = [["arr", "A", ["k", "k"]]]
    Q = [["q", "q"]]

    def tpl_ops(kind):
        if kind == "rot1":
            return [["rot", "q", "X", ["tpl", "a"], 3]], ["a"]
        if kind == "rot2":
            return [["rot", "q", "X", ["tpl", "a"], 3], ["g", "q", "H"], ["rot", "q", "Z", ["tpl", "b"], 2]], ["a", "b"]
        if kind == "rot2rev":
            return [["rot", "q", "Y", ["tpl", "b"], 1], ["rot", "q", "Z", ["tpl", "a"], 2]], ["a", "b"]
        if kind == "rot_meas":
            return [["rot", "q", "Y", ["tpl", "a"], 4], ["m", "q", ["newf", "n"], True]], ["a"]
        if kind == "rot_measR":
            # results that live in registers (measure(store_array=False)): registers-to-return and used measurement registers
            return [["rot", "q", "Y", ["tpl", "a"], 2], ["m", "q", ["newr", "r0"], True]], ["a"]
        if kind == "rot_measA":
            return [["rot", "q", "Z", ["tpl", "a"], 0], ["m", "q", ["f", "A", 1], True], ["add", ["f", "A", 0], ["k"], None]], ["a"]
        if kind == "rot_cnot":
            return [["q", "p"], ["g", "p", "H"], ["rot", "q", "X", ["tpl", "a"], 2], ["cnot", "p", "q"]], ["a"]
        if kind == "rot_if_labelname":
            # a template that happens to be called like a label the builder generates for the if-block
            return [["if", "eq", ["f", "A", 0], ["k"], "ctx", [["rot", "q", "X", ["tpl", "IF_EXIT"], 1]]], ["rot", "q", "Z", ["tpl", "LOOP_EXIT"], 2]], ["IF_EXIT", "LOOP_EXIT"]
        if kind == "rot_if":
            return [["if", "eq", ["f", "A", 0], ["k"], "ctx", [["rot", "q", "X", ["tpl", "a"], 1]]]], ["a"]
        raise KeyError(kind)

    mids = {"none": [], "array": [["arr", "M", ["k"]]], "measure": [["m", "q", ["newf", "mm"], True]], "add": [["add", ["f", "A", 0], ["k"], None]],
            "measureR": [["m", "q", ["newr", "mr"], True]]}
    posts = {"none": [], "gate": [["g", "q", "X"]], "measure": [["m", "q", ["newf", "pp"], True]], "add": [["add", ["f", "A", 1], ["k"], None]],
             "array": [["arr", "P", ["k", "k"]]], "measureR": [["m", "q", ["newr", "pr"], True]]}
    out = []
    kinds = ["rot1", "rot2", "rot2rev", "rot_meas", "rot_measR", "rot_measA", "rot_cnot", "rot_if", "rot_if_labelname"]
    for kind in kinds:
        ops, names = tpl_ops(kind)
        for pre_flush in (False, True):
            for mid in mids:
                for post in posts:
                    for nv in (False, True):
                        for order in (("natural", "reversed") if len(names) > 1 else ("natural",)):
                            if tier != "thorough" and (hash((kind, pre_flush, mid, post, nv, order)) % 3) and not (mid == "none" and post in ("none", "measure", "measureR")):
                                continue
                            prog = DECL + Q + ([["flush"]] if pre_flush else []) + ops + [["compile"]] + mids[mid] + [["commit"]] + posts[post] + [["flush"]]
                            # a second flush with more work, to expose arrays that are re-declared / erased later
                            prog = prog + [["add", ["f", "A", 0], ["k"], None], ["flush"]]
                            out.append({"prog": prog, "templates": names, "nv": nv, "order": order,
                                        "shape": f"{kind}|pre_flush={int(pre_flush)}|mid={mid}|post={post}"})
    return out


def work(spec):
    ex = Explorer(max_paths=5000, budget_s=120, max_depth=600)
    ex.run(make_body(spec))
    res = worker_result(ex, samples=[{"shape": spec["shape"], "nv": spec["nv"], "paths": ex.stats.paths}])
    for c in res["cexs"]:
        c["info"] = {"spec": spec, "detail": c["info"]}
    return res


def replay(harness, cex):
    spec = cex["info"]["spec"]
    res = run_concrete(make_body(spec), cex["values"])
    bad = [(lab, info) for lab, ok, site, info in res if not ok and lab == cex["label"]]
    allbad = [(lab, info) for lab, ok, site, info in res if not ok]
    return bool(bad), f"concrete precompiled flow vs direct flow: failing {allbad}; scenario {spec['shape']} nv={spec['nv']} inputs {cex['values']}"


def main(tier, seed):
    rep = Report(PID, tier, seed,
                 "bounded symbolic execution of the real connection (compile / Subroutine.instantiate / commit_subroutine vs flush), "
                 "Builder, assembler, optional NV transpiler and Executor on the same host program with symbolic template values, "
                 "array contents and outcomes; equality of instruction streams, controller state, host values and connection "
                 "bookkeeping decided by z3 on every path")
    specs = scenarios(tier, seed)
    rep.bounds = [f"{len(specs)} scenarios: 7 templated blocks (1-2 templates, argument dict in natural and reversed order, with measurement "
                  "into fresh / existing arrays, a two-qubit gate, inside an if), an ordinary flush before or not, operations queued between "
                  "compile() and commit (none / new array / measurement / add), operations after the commit, a later flush; with and without "
                  "NVSubroutineTranspiler" + ("" if tier == "thorough" else " (quick: a fixed third of the product plus all mid=none cases)"),
                  "template values 0..255, array contents, addends, outcomes symbolic"]
    rep.outside = ["templates in operands other than rotation numerators (the SDK offers none)", "more than two templates"]
    rep.stubs = ["PipeConnection / TraceExecutor as in C05"]
    for r in pmap(work, specs, chunksize=2):
        rep.merge_worker("flows", r)
    rep.section("flows", None, scenarios=len(specs))
    ex = Explorer(max_paths=3000, budget_s=90)
    ex.run(make_body(specs[0], falsify=True))
    rep.witness("instruction streams with oracle 'template value != 200'", any(c.label == "instruction_streams" for c in ex.cexs))

    def one():
        Explorer(max_paths=4, budget_s=30).run(make_body(specs[3]))
    rep.functions_encoded |= trace_functions(one)
    return rep.finish(replay)
