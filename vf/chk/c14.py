"""C14 -- compiling never runs out of registers because of finished operations.

Inductive formulation: from a builder in which the first k R registers are live (k = 0..12 stands for
the operations currently open around us), ONE completed SDK operation of every kind leaves the set of
active registers unchanged, writes none of the k live registers, and after a flush the pool of
measurement registers / registers-to-return / arrays-to-return is empty again.  Hence any sequence
of completed operations, of any length, compiles.  Constants are symbolic so that data-dependent
builder paths (e.g. the all-equal array initialisation loop) are explored; allocation itself is
shape-driven (stated honestly in the evidence).  Cross-check: long seeded operation sequences with
periodic flushes must compile.
"""
import json
import random

import z3

from ..common import Report, pmap, trace_functions, worker_result
from ..pipeline import PipeConnection, TraceExecutor
from ..sdkdsl import SdkInterp, bind
from ..symx import Explorer, Infeasible, Ob, PathAbort, run_concrete
from . import c05

from netqasm.lang.encoding import RegisterName
from netqasm.lang.ir import GenericInstr, ICmd
from netqasm.lang.operand import Register
from netqasm.runtime.settings import set_is_using_hardware  # noqa
from netqasm.sdk.build_types import GenericHardwareConfig, NVHardwareConfig  # noqa
from netqasm.sdk.connection import DebugConnection
from netqasm.sdk.epr_socket import EPRSocket

PID = "C14"
WRITES_FIRST = {GenericInstr.SET, GenericInstr.ADD, GenericInstr.SUB, GenericInstr.ADDM, GenericInstr.SUBM, GenericInstr.LOAD,
                GenericInstr.LEA}


class NullExecutor(TraceExecutor):
    def consume_execute_subroutine(self, subroutine):
        return None


DECL = c05.DECL


def dsl_ops():
    """completed non-EPR operations: name -> list of DSL statements"""
    ops = {}
    for i, blk in enumerate(c05.atoms(1)):
        ops[f"atom{i}"] = blk
    for i, blk in enumerate(c05.loop_atoms(1)):
        ops[f"loopatom{i}"] = blk
    for i, blk in enumerate(c05.until_atoms(1)):
        ops[f"until{i}"] = blk
    at = c05.atoms(1)
    for j, a in enumerate((at[0], at[2], at[6], at[8])):
        for i, blk in enumerate(c05.wrappers(lambda a=a: json.loads(json.dumps(a)), 1)):
            ops[f"wrap{j}_{i}"] = blk
    # operations whose body emits no instruction (e.g. a host-side condition was false)
    ops["empty_loop_ctx"] = [["loop", 3, "ctx", []]]
    ops["empty_loop_body"] = [["loop", 3, "body", []]]
    ops["empty_foreach"] = [["foreach", "A", []]]
    ops["empty_enum"] = [["enum", "A", []]]
    ops["empty_if_ctx"] = [["if", "eq", c05.FA0, ["k"], "ctx", []]]
    ops["empty_if_cb"] = [["if", "nz", c05.FA0, None, "cb", []]]
    ops["empty_in_loop"] = [["loop", 2, "ctx", [["loop", 2, "body", []], ["add", c05.FA0, ["k"], None]]]]
    # nested
    inner = c05.wrappers(lambda: json.loads(json.dumps(at[1])), 1, small=True)
    for i, blk in enumerate(inner):
        for j, w in enumerate(c05.wrappers(lambda blk=blk: json.loads(json.dumps(blk)), 1, small=True)[::3]):
            ops[f"nest{i}_{j}"] = w
    return ops


def epr_ops():
    """completed EPR operations: name -> function(conn, sock)"""
    def post(conn, q, pair):
        q.H()
        q.measure()

    def keep(role, **kw):
        def f(conn, s):
            qs = getattr(s, role + "_keep")(**kw)
            for q in qs or []:
                q.measure()
        return f

    def ctx(role, **kw):
        def f(conn, s):
            with getattr(s, role + "_context")(**kw) as (q, pair):
                q.H()
                q.measure()
        return f

    ops = {}
    for role in ("create", "recv"):
        ops[f"{role}_keep1"] = keep(role, number=1)
        ops[f"{role}_keep2"] = keep(role, number=2)
        ops[f"{role}_keep_seq"] = keep(role, number=2, sequential=True, post_routine=post)
        ops[f"{role}_keep_post"] = keep(role, number=2, post_routine=post)
        ops[f"{role}_keep_minfid"] = keep(role, number=1, min_fidelity_all_at_end=80, max_tries=3)
        ops[f"{role}_measure"] = lambda conn, s, role=role: getattr(s, role + "_measure")(number=2)
        ops[f"{role}_rsp"] = (lambda conn, s: s.create_rsp(number=2)) if role == "create" else \
            (lambda conn, s: [q.measure() for q in s.recv_rsp(number=1)])
        ops[f"{role}_context"] = ctx(role, number=2)
        ops[f"{role}_context_seq"] = ctx(role, number=2, sequential=True)
    ops["recv_keep_nophi"] = keep("recv", number=2, expect_phi_plus=False)
    return ops


DSL_OPS = dsl_ops()
EPR_OPS = epr_ops()


def mk_conn(hw):
    DebugConnection.node_ids = {"app": 0, "Bob": 1}
    sock = EPRSocket("Bob")
    cfg = NVHardwareConfig(5) if hw == "nv" else GenericHardwareConfig(5)
    conn = PipeConnection("app", executor=NullExecutor("ctrl"), epr_sockets=[sock], hardware_config=cfg, max_qubits=5)
    return conn, sock


def written_R(cmds):
    out = set()
    for c in cmds:
        if isinstance(c, ICmd) and c.instruction in WRITES_FIRST and c.operands and isinstance(c.operands[0], Register) \
                and c.operands[0].name == RegisterName.R:
            out.add(c.operands[0])
    return out


def _out_of_registers(e):
    """the exception (or the one it masks: the SDK's context managers raise from their finally clauses) is the pool running dry"""
    seen = 0
    while e is not None and seen < 10:
        if "could not find an available loop register" in str(e):
            return True
        e = e.__context__ or e.__cause__
        seen += 1
    return False


def make_body(spec):
    def body(inp):
        conn, sock = mk_conn(spec["hw"])
        sdk = SdkInterp(conn)
        site = {"op": spec["op"].split("_")[0].rstrip("0123456789") if spec["op"].startswith(("wrap", "nest", "atom", "loopatom", "until")) else spec["op"],
                "hw": spec["hw"]}
        try:
            sdk.run(bind(DECL, inp, prefix="d"))
            mm = conn.builder._mem_mgr
            owned = set(mm._active_registers)
            forced = []
            i = 0
            while len(forced) < spec["k"] and i < 16:
                r = Register(RegisterName.R, i)
                if r not in mm._active_registers:
                    mm.add_active_register(r)
                    forced.append(r)
                i += 1
            before = frozenset(mm._active_registers)
            m_before = frozenset(r for r, u in mm._used_meas_registers.items() if u)
            n0 = len(conn.builder._pending_commands)
            if spec["op"] in DSL_OPS:
                sdk.run(bind(DSL_OPS[spec["op"]], inp))
            else:
                EPR_OPS[spec["op"]](conn, sock)
            after = frozenset(mm._active_registers)
            cmds = conn.builder._pending_commands[n0:]
            clobbered = written_R(cmds) & set(forced)
            obs = [Ob("active_registers_unchanged", after == before, site,
                      info={"leaked": sorted(str(r) for r in after - before), "lost": sorted(str(r) for r in before - after)}),
                   Ob("live_registers_not_written", not clobbered, site, info={"clobbered": sorted(str(r) for r in clobbered)})]
            # measurement registers: an outcome that went into an array entry does not keep its M register; only outcomes kept in
            # registers (measure(store_array=False)) do -- otherwise 16 measurements between two flushes exhaust the pool
            m_after = frozenset(r for r, u in mm._used_meas_registers.items() if u)
            held = set()
            if spec["op"] in DSL_OPS:
                held = {str(rf.reg) for rf in sdk.regs.values() if getattr(rf, "reg", None) is not None and rf.reg.name == RegisterName.M}
            if spec["op"] in DSL_OPS:
                obs.append(Ob("measurement_registers_released", {str(r) for r in m_after - m_before} <= held, site,
                              info={"still_used": sorted(str(r) for r in m_after - m_before), "held_by_register_handles": sorted(held)}))
            for r in forced:
                mm.remove_active_register(r)
            conn.flush()
            obs.append(Ob("pools_empty_after_flush",
                          not any(mm._used_meas_registers.values()) and not mm._registers_to_return and not mm._arrays_to_return
                          and not conn.builder._pending_commands, site))
            obs.append(Ob("active_registers_after_flush", frozenset(mm._active_registers) == frozenset(owned), site,
                          info={"leaked": sorted(str(r) for r in set(mm._active_registers) - owned)}))
            return obs
        except (PathAbort, Infeasible):
            raise
        except Exception as e:  # noqa
            if spec["k"] > 0 and _out_of_registers(e):
                return []      # the operation does not fit into 16 - k registers: not a completed operation at this depth
            return [Ob("compiles", False, dict(site, exc=type(e).__name__), info=f"{type(e).__name__}: {str(e)[:300]}")]
    return body


def seq_body(spec):
    """long seeded sequence of completed operations with a flush every `period` operations must compile"""
    def body(inp):
        rnd = random.Random(spec["seed"])
        conn, sock = mk_conn(spec["hw"])
        sdk = SdkInterp(conn)
        sdk.run(bind(DECL, inp, prefix="d"))
        names = sorted(DSL_OPS) + sorted(EPR_OPS)
        done = 0
        try:
            for n in range(spec["length"]):
                op = rnd.choice(names)
                if op in DSL_OPS:
                    blk = json.loads(json.dumps(DSL_OPS[op]))
                    # fresh names for handles created by the block
                    s = json.dumps(blk).replace('"q1"', f'"q{n}"').replace('"n1"', f'"n{n}"').replace('"mr1"', f'"mr{n}"').replace('"u1"', f'"u{n}"')
                    sdk.run(bind(json.loads(s), inp, prefix=f"s{n}_"))
                else:
                    EPR_OPS[op](conn, sock)
                    # qubit handles that EPR contexts / sequential requests leave active are C09's subject: drop them here
                    conn.builder.inactivate_qubits()
                done += 1
                if (n + 1) % spec["period"] == 0:
                    conn.flush()
            conn.flush()
        except (PathAbort, Infeasible):
            raise
        except Exception as e:  # noqa
            return [Ob("long_sequence_compiles", False, {"hw": spec["hw"], "exc": type(e).__name__},
                       info=f"operation #{done} ({op}): {type(e).__name__}: {str(e)[:200]}")]
        return [Ob("long_sequence_compiles", True, {"hw": spec["hw"]})]
    return body


def nested_programs():
    """programs in which an operation with temporaries runs inside open operations that hold live registers; checked with
    C05's oracle (direct evaluation): a temporary that overwrites a live register changes the result"""
    at = c05.atoms(1)
    la = c05.loop_atoms(1)
    out = []
    inners = [at[0], at[1], at[2], at[4], at[5], at[7], la[1], la[2], la[5], c05.until_atoms(1)[1], c05.until_atoms(1)[2]]
    for blk in inners:
        cp = lambda b=blk: json.loads(json.dumps(b))  # noqa
        out.append([["loop", 2, "ctx", [["loop", 2, "body", cp()]]]])
        out.append([["enum", "B", [["if", "ge", ["elt"], ["k"], "ctx", cp()]]]])
        out.append([["loop", 2, "body", [["if", "nz", c05.FA0, None, "cb", [["foreach", "B", cp()]]]]]])
        out.append([["if", "lt", c05.FA0, c05.FA1, "ctx", [["loop", 2, "ctx", cp() + [["add", c05.R, ["ix"], None]]]]]])
    progs = []
    for blk in out:
        s = json.dumps(blk)
        # inner foreach/enum over A inside an outer foreach over B: fine; element handles refer to the innermost loop
        progs.append({"prog": c05.DECL + json.loads(s) + [["flush"]], "kind": "nested"})
    return progs


def body_of(spec):
    if spec.get("kind") == "nested":
        return c05.make_body(spec)
    return seq_body(spec) if spec.get("kind") == "seq" else make_body(spec)


def work(spec):
    ex = Explorer(max_paths=400, budget_s=120, max_depth=400)
    ex.run(body_of(spec))
    res = worker_result(ex, samples=[dict(spec, paths=ex.stats.paths)])
    for c in res["cexs"]:
        c["info"] = {"spec": spec, "detail": c["info"]}
    return res


def replay(harness, cex):
    spec = cex["info"]["spec"]
    res = run_concrete(body_of(spec), cex["values"])
    bad = [(lab, info) for lab, ok, site, info in res if not ok and lab == cex["label"]]
    allbad = [(lab, info) for lab, ok, site, info in res if not ok]
    return bool(bad), f"concrete SDK build: failing {allbad}; spec {spec}"


def main(tier, seed):
    rep = Report(PID, tier, seed,
                 "bounded symbolic execution of the real Builder / MemoryManager / futures code for one completed operation of every "
                 "kind from a builder with k live registers (inductive step), with symbolic constants; the invariant obligations are "
                 "decided per path; plus long seeded operation sequences. Allocation is shape-driven: the solver's share is the "
                 "feasibility of data-dependent builder branches")
    ks = list(range(0, 13)) if tier == "thorough" else [0, 3, 11]
    specs = []
    for hw in ("generic", "nv"):
        for op in list(DSL_OPS) + list(EPR_OPS):
            if hw == "nv" and op in DSL_OPS and not op.startswith(("atom", "until")):
                continue
            for k in ks:
                specs.append({"op": op, "k": k, "hw": hw})
    nseq = 32 if tier == "thorough" else 4
    for i in range(nseq):
        specs.append({"kind": "seq", "seed": seed * 1000 + i, "length": 500 if tier == "thorough" else 120, "period": [1, 3, 10, 25][i % 4],
                      "hw": "generic" if i % 2 == 0 else "nv"})
    nested = nested_programs()
    specs += nested
    rep.bounds = [f"{len(nested)} nested host programs (operation with temporaries inside 2-3 open loops / ifs) decided with C05's direct-evaluation oracle",
                  f"{len(DSL_OPS)} non-EPR operation kinds (every atom / loop / foreach / enumerate / loop_until / if-wrapper of C05's DSL, nested "
                  f"wrappers) and {len(EPR_OPS)} EPR operation kinds (keep, sequential with post routine, min-fidelity loop, measure, rsp, "
                  f"contexts; create and receive) x nesting depth k in {ks} x generic/NV hardware config",
                  f"{nseq} seeded sequences of {500 if tier == 'thorough' else 120} completed operations with a flush every 1/3/10/25 operations"]
    rep.outside = ["operations not in the list (tomography helpers, toolbox functions)", "k > 12"]
    rep.stubs = ["NullExecutor: flushed subroutines are compiled but not executed (execution equivalence is C05)",
                 "long sequences: qubit handles left active by EPR contexts are deactivated by the harness after each EPR operation (C09's subject)"]
    for r in pmap(work, specs, chunksize=2):
        rep.merge_worker("ops", r)
    rep.section("ops", None, specs=len(specs))
    # vacuity: the leak detector must see a deliberately leaked register
    ex = Explorer(max_paths=3000, budget_s=90)

    def twin(inp):
        conn, sock = mk_conn("generic")
        mm = conn.builder._mem_mgr
        before = frozenset(mm._active_registers)
        mm.get_inactive_register(activate=True)
        return [Ob("active_registers_unchanged", frozenset(mm._active_registers) == before, {})]
    ex.run(twin)
    rep.witness("deliberately leaked register is seen", len(ex.cexs) == 1)

    def one():
        Explorer(max_paths=4, budget_s=30).run(make_body({"op": "create_keep_seq", "k": 2, "hw": "nv"}))
        Explorer(max_paths=4, budget_s=30).run(make_body({"op": "until0", "k": 1, "hw": "generic"}))
    rep.functions_encoded |= trace_functions(one)
    return rep.finish(replay)
