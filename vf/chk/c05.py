"""C05 -- SDK control flow and classical data flow compile to equivalent subroutines.

Host programs of the DSL (vf/sdkdsl.py) are run through the real pipeline
SDK -> Builder -> assemble_subroutine -> Executor with symbolic initial array contents, constants,
moduli and measurement outcomes, and after every flush the host-visible handles, the controller's
arrays/registers and the gate/measurement trace are compared, as z3 formulas, with a direct
evaluation of the same program (RefInterp).
"""
import itertools
import json
import random

import z3

from ..common import Report, pmap, trace_functions, worker_result
from ..pipeline import PipeConnection, TraceExecutor
from ..refsem import Unspecified
from ..sdkdsl import RefInterp, SdkInterp, bind
from ..symx import EQ, Explorer, Infeasible, Ob, PathAbort, run_concrete

PID = "C05"
NOUT = 8
APP = 0


def skeleton(prog):
    def s(st):
        k = st[0]
        if k == "if":
            return f"if_{st[1]}_{st[4]}[{_h(st[2])},{_h(st[3])}]({','.join(s(x) for x in st[5])})"
        if k == "loop":
            return f"loop{st[1]}_{st[2]}({','.join(s(x) for x in st[3])})"
        if k in ("foreach", "enum"):
            return f"{k}({','.join(s(x) for x in st[2])})"
        if k == "until":
            return f"until{st[1]}[{_h(st[3])}]({','.join(s(x) for x in st[2])})"
        if k == "add":
            return f"add[{_h(st[1])},{_h(st[2])}{',mod' if st[3] else ''}]"
        if k == "m":
            return f"m[{st[2][0]}{',inplace' if st[3] else ''}]"
        if k == "arr":
            return "arr" + "".join("n" if x is None else str(x)[0] for x in st[2])
        return k
    return ";".join(s(x) for x in prog)


def _h(h):
    if h is None:
        return "-"
    if h[0] == "f":
        return "f" + ("ix" if isinstance(h[2], list) else "")
    return h[0]


def features(prog):
    """coarse feature set of a program (used as the site of a counterexample)"""
    out = set()

    def walk(sts, depth, after_flush):
        for st in sts:
            k = st[0]
            if k == "flush":
                after_flush = True
            elif k == "if":
                out.add("if_" + st[1])
                walk(st[5], depth + 1, after_flush)
            elif k in ("loop", "foreach", "enum"):
                out.add(k)
                walk(st[2] if k != "loop" else st[3], depth + 1, after_flush)
            elif k == "until":
                out.add("until")
                walk(st[2], depth + 1, after_flush)
            elif k == "add":
                out.add("add_" + st[1][0] + ("_mod" if st[3] else ""))
                if after_flush:
                    out.add("modify_after_flush_" + st[1][0])
            elif k == "m":
                out.add("measure_" + st[2][0])
                if after_flush and st[2][0] == "f":
                    out.add("modify_after_flush_f")
    walk(prog, 0, False)
    return sorted(out)


def loop_overshoots(prog):
    """True iff some loop's index steps over its stop value (stop - start not a multiple of step, or start beyond stop)"""
    hit = False

    def walk(sts):
        nonlocal hit
        for st in sts:
            if st[0] == "loop":
                start, step = (st[4] if len(st) > 4 else 0), (st[5] if len(st) > 5 else 1)
                if start > st[1] or (st[1] - start) % step != 0:
                    hit = True
                walk(st[3])
            else:
                for x in st:
                    if isinstance(x, list) and x and isinstance(x[0], list):
                        walk(x)
    walk(prog)
    return hit


def reg_clobber_window(prog):
    """True iff a register handle (RegFuture) is used in a later subroutine than the one that created it AND other statements were
    compiled in between (after the creating subroutine was flushed): the window in which the recorded finding
    `C05-regfuture-register-not-reserved` can hand the handle's register out as a scratch register."""
    seg = 0
    declared = {}          # name -> segment of creation
    work_since = {}        # name -> other statements compiled after the creating segment was flushed
    hit = False

    def uses(st):
        found = set()

        def walk(x):
            if isinstance(x, list):
                if len(x) == 2 and x[0] == "r" and isinstance(x[1], str):
                    found.add(x[1])
                for y in x:
                    walk(y)
        walk(st)
        return found

    def visit(sts):
        nonlocal seg, hit
        for st in sts:
            k = st[0]
            if k == "flush":
                seg += 1
                continue
            if k == "reg":
                declared[st[1]] = seg
                work_since[st[1]] = False
                continue
            if k == "m" and st[2][0] == "newr":
                declared[st[2][1]] = seg
                work_since[st[2][1]] = False
            used = uses(st)
            for name in used:
                if name in declared and seg > declared[name] and work_since.get(name):
                    hit = True
            for name in declared:
                if seg > declared[name]:
                    work_since[name] = True          # this statement may have taken scratch registers
    visit(prog)
    return hit


def measured_regs(prog):
    out = []

    def walk(sts):
        for st in sts:
            if st[0] == "m" and st[2][0] == "newr":
                out.append(st[2][1])
            for x in st:
                if isinstance(x, list) and x and isinstance(x[0], list):
                    walk(x)
    walk(prog)
    return out


def make_body(spec, falsify=False):
    prog0 = spec["prog"]

    def body(inp):
        prog = bind(prog0, inp)
        outcomes = [inp.bit(f"m{j}") for j in range(NOUT)]
        ref = RefInterp(outcomes)
        ex = TraceExecutor("ctrl", outcomes)
        conn = PipeConnection("app", executor=ex, max_qubits=spec.get("max_qubits", 3))
        sdk = SdkInterp(conn)
        site = {"features": features(prog0), "reg_clobber_window": reg_clobber_window(prog0)}
        if loop_overshoots(prog0):
            site["loop_overshoots"] = True
        obs = []
        nflush = 0
        for st in prog:
            try:
                ref.step(st, {})
            except Unspecified:
                return []
            try:
                sdk.step(st, {})
            except (PathAbort, Infeasible):
                raise
            except Exception as e:  # noqa
                why = "other"
                if "Trying to return register M" in str(e):
                    # ret_reg of a measurement outcome register: expected only if, in the direct evaluation, some
                    # measurement into a register was not executed (its branch / loop body was not taken)
                    skipped = [n for n in measured_regs(prog0) if n not in ref.regs]
                    why = "ret_reg_of_unexecuted_measurement" if skipped else "ret_reg_undefined_although_measured"
                obs.append(Ob("pipeline_raises", False, dict({"exc": type(e).__name__, "why": why, "at": st[0]}, **({"loop_overshoots": True} if site.get("loop_overshoots") else {})),
                              info=f"{type(e).__name__}: {str(e)[:300]}"))
                return obs
            if st[0] != "flush":
                continue
            nflush += 1
            tag = {"flush": nflush}
            # host-visible handles
            for name, vals in ref.arrays.items():
                if name not in sdk.arrays:
                    continue
                arr = sdk.arrays[name]
                try:
                    fresh = [arr[i] for i in range(len(vals))]
                    held = [sdk.futs[(name, i)].value for i in range(len(vals))]
                except (PathAbort, Infeasible):
                    raise
                except Exception as e:  # noqa
                    obs.append(Ob("host_read_raises", False, dict(site, exc=type(e).__name__), info=str(e)[:200]))
                    return obs
                obs.append(Ob("host_array_read", EQ(fresh, vals), site, info=dict(tag, array=name)))
                obs.append(Ob("host_future_handle", EQ(held, vals), site, info=dict(tag, array=name)))
                ctrl = ex._app_arrays[APP]._arrays.get(arr.address)
                obs.append(Ob("controller_array", EQ(list(ctrl) if ctrl is not None else None, vals), site, info=dict(tag, array=name)))
            for name, v in ref.regs.items():
                rf = sdk.regs[name]
                obs.append(Ob("host_regfuture_handle", EQ(rf.value, v), site, info=dict(tag, reg=name)))
            # gate / measurement trace
            exp = []
            for ev in ref.events:
                exp.append((ev[0], sdk.qids.get(ev[1], -1)) + tuple(ev[2:]))
            got = [tuple(t) for t in ex.trace]
            ok = z3.BoolVal(len(exp) == len(got))
            if len(exp) == len(got):
                ok = z3.And(*[EQ(list(a), list(b)) if len(a) == len(b) and a[0] == b[0] else z3.BoolVal(False) for a, b in zip(exp, got)]) if exp else z3.BoolVal(True)
            if falsify:
                ok = z3.And(ok, z3.BoolVal(len(exp) == 0))
            obs.append(Ob("event_trace", ok, site, info=dict(tag, expected=len(exp), got=len(got))))
        return obs

    return body


# ----------------------------------------------------------------------------- program generation

DECL = [["arr", "A", ["k", "k"]], ["arr", "B", ["s", "s"]], ["reg", "r"]]
FA0, FA1, FB0, R = ["f", "A", 0], ["f", "A", 1], ["f", "B", 0], ["r", "r"]


def atoms(seg):
    q = f"q{seg}"
    return [
        [["add", FA0, ["k"], None]],
        [["add", FA0, ["k"], ["k"]]],
        [["add", FA1, FB0, None]],
        [["add", R, ["k"], None]],
        [["add", R, FA0, ["k"]]],
        [["add", FA0, R, None]],
        [["add", ["f", "A", FB0], ["k"], None]],                         # an entry selected by the value of another entry
        [["add", ["f", "A", FB0], FA1, ["k", 3]]],          # (a concrete modulus: symbolic index AND symbolic modulus made z3 time out now and then)
        [["q", q], ["g", q, "H"], ["m", q, ["newf", f"n{seg}"], False]],
        [["q", q], ["g", q, "X"], ["m", q, FA1, False]],
        [["q", q], ["m", q, ["newr", f"mr{seg}"], False]],
        [["q", q], ["m", q, FA0, True], ["g", q, "Z"], ["m", q, FA1, False]],
    ]


def conds():
    out = []
    for c in ("eq", "ne", "lt", "ge"):
        for a, b in ((FA0, ["k"]), (FA0, FA1), (R, ["k"]), (FA0, R), (R, FA1)):
            out.append((c, a, b))
    for c in ("ez", "nz"):
        for a in (FA0, R):
            out.append((c, a, None))
    return out


def wrappers(body_fn, seg, small=False):
    """all single wrappers around body (a list of statements)"""
    out = []
    cs = conds()
    if small:
        cs = cs[::5] + cs[-2:]
    for c, a, b in cs:
        for form in ("ctx", "cb"):
            out.append([["if", c, a, b, form, body_fn()]])
    for stop in (0, 1, 3):
        for form in ("ctx", "body"):
            out.append([["loop", stop, form, body_fn()]])
    out.append([["foreach", "A", body_fn()]])
    out.append([["enum", "A", body_fn()]])
    return out


def loop_atoms(seg):
    """bodies that use the loop element / index"""
    q = f"q{seg}"
    return [
        [["foreach", "A", [["add", ["elt"], ["k"], None]]]],
        [["enum", "A", [["add", ["f", "B", ["ix"]], ["elt"], None]]]],
        [["enum", "A", [["add", ["elt"], ["ix"], None]]]],
        [["loop", 2, "ctx", [["add", ["f", "A", ["ix"]], ["k"], None]]]],
        [["loop", 2, "body", [["add", R, ["ix"], None]]]],
        [["loop", 3, "ctx", [["add", R, ["ix"], None]], 1]],
        [["loop", 5, "body", [["add", ["f", "A", 0], ["ix"], None]], 1, 2]],
        [["loop", 6, "ctx", [["add", R, ["k"], None]], 2, 2]],
        [["loop", 4, "body", [["add", ["f", "A", 0], ["ix"], None]], 1, 2]],       # the index steps over `stop` (recorded finding)
        [["foreach", "A", [["if", "eq", ["elt"], ["k"], "ctx", [["add", R, ["k"], None]]]]]],
        [["foreach", "A", [["q", q], ["if", "nz", ["elt"], None, "ctx", [["g", q, "X"]]], ["m", q, ["f", "B", 0], False]]]],
        [["enum", "A", [["q", q], ["g", q, "H"], ["m", q, ["f", "B", ["ix"]], False]]]],
    ]


def until_atoms(seg):
    q = f"q{seg}"
    out = []
    for maxit in (1, 2, 3):
        out.append([["until", maxit, [["q", q], ["g", q, "H"], ["m", q, ["newf", f"u{seg}"], False]], ["f", f"u{seg}", 0], ["k"]]])
        out.append([["until", maxit, [["q", q], ["m", q, FA0, False], ["add", R, ["k"], None]], FA0, ["k"]]])
        out.append([["until", maxit, [["add", R, ["k"], None]], R, ["k"]]])
    return out


def statements(seg, depth, rnd=None, limit=None):
    """statement blocks (lists of statements) for one top-level position"""
    base = atoms(seg) + loop_atoms(seg) + until_atoms(seg)
    out = list(base)
    if depth >= 1:
        for at in atoms(seg):
            out += wrappers(lambda at=at: json.loads(json.dumps(at)), seg)
    if depth >= 2:
        inner = []
        for at in atoms(seg)[:6]:
            inner += wrappers(lambda at=at: json.loads(json.dumps(at)), seg, small=True)
        nested = []
        for blk in inner:
            nested += wrappers(lambda blk=blk: json.loads(json.dumps(blk)), seg, small=True)
        for ua in until_atoms(seg)[:3]:
            nested += wrappers(lambda ua=ua: json.loads(json.dumps(ua)), seg, small=True)
        if rnd is not None and limit is not None and len(nested) > limit:
            nested = rnd.sample(nested, limit)
        out += nested
    return out


def program_specs(tier, seed):
    rnd = random.Random(seed)
    specs = []
    one = statements(1, 1)
    # every single block, in the same segment as the declarations and in a later segment
    for blk in one:
        specs.append({"prog": DECL + blk + [["flush"]]})
        specs.append({"prog": DECL + [["flush"]] + blk + [["flush"]]})
    # two blocks with every placement of a flush between them
    base1, base2 = atoms(1) + loop_atoms(1)[:4] + until_atoms(1)[:3], atoms(2) + loop_atoms(2)[:4] + until_atoms(2)[:3]
    pairs = list(itertools.product(range(len(base1)), range(len(base2))))
    if tier != "thorough":
        pairs = rnd.sample(pairs, 60)
    for i, j in pairs:
        for mid in (False, True):
            specs.append({"prog": DECL + base1[i] + ([["flush"]] if mid else []) + base2[j] + [["flush"]]})
    nested = statements(1, 2, rnd, 5000 if tier == "thorough" else 150)[len(one):]
    for blk in nested:
        specs.append({"prog": DECL + blk + [["flush"]]})
    # measurements into registers and array entries mixed in one subroutine; rotations on one qubit with a gate on another in between
    # (operations that share scratch state inside the builder: M registers, the qubit register)
    mixed = [
        [["q", "qa"], ["m", "qa", ["newr", "ra"], True], ["m", "qa", FA0, True], ["m", "qa", ["newr", "rb"], False]],
        [["q", "qa"], ["q", "qb"], ["m", "qa", ["newr", "ra"], False], ["m", "qb", FA1, True], ["g", "qb", "X"], ["m", "qb", ["newr", "rb"], False]],
        [["q", "qa"], ["q", "qb"], ["rot", "qa", "X", 3, 2], ["g", "qb", "H"], ["rot", "qa", "Z", 5, 3], ["rot", "qa", "Y", 1, 1],
         ["m", "qa", FA0, False], ["m", "qb", FA1, False]],
        [["q", "qa"], ["q", "qb"], ["rot", "qb", "Y", 7, 4], ["rot", "qa", "Y", 7, 4], ["g", "qa", "Z"], ["rot", "qb", "X", 2, 2],
         ["m", "qa", FA0, False], ["m", "qb", FA1, False]],
    ]
    for blk in mixed:
        specs.append({"prog": DECL + blk + [["flush"]]})
        specs.append({"prog": DECL + [["flush"]] + blk + [["flush"]]})
    # three blocks, flushes anywhere (a handle created in the first subroutine and used in the third, with other work in between)
    b3 = atoms(3)
    for _ in range(6000 if tier == "thorough" else 120):
        a, b, c = rnd.choice(base1), rnd.choice(base2), rnd.choice(b3)
        f1, f2 = rnd.random() < 0.5, rnd.random() < 0.5
        specs.append({"prog": DECL + a + ([["flush"]] if f1 else []) + b + ([["flush"]] if f2 else []) + c + [["flush"]]})
    if tier == "thorough":
        b4 = atoms(4)
        for _ in range(2000):
            a, b, c, d = rnd.choice(base1), rnd.choice(base2), rnd.choice(b3), rnd.choice(b4)
            fl = [rnd.random() < 0.5 for _ in range(3)]
            specs.append({"prog": DECL + a + ([["flush"]] if fl[0] else []) + b + ([["flush"]] if fl[1] else []) + c + ([["flush"]] if fl[2] else []) + d + [["flush"]]})
    return specs


def work(spec):
    ex = Explorer(max_paths=20000, budget_s=60, max_depth=600)
    ex.run(make_body(spec))
    res = worker_result(ex, samples=[{"program": skeleton(spec["prog"]), "paths": ex.stats.paths}])
    for c in res["cexs"]:
        c["info"] = {"spec": spec, "detail": c["info"], "skeleton": skeleton(spec["prog"])}
    return res


def replay(harness, cex):
    spec = cex["info"]["spec"]
    res = run_concrete(make_body(spec), cex["values"])
    bad = [(lab, info) for lab, ok, site, info in res if not ok and lab == cex["label"]]
    allbad = [(lab, info) for lab, ok, site, info in res if not ok]
    return bool(bad), f"concrete run SDK->assembler->Executor vs direct evaluation: failing {allbad}; program {skeleton(spec['prog'])} inputs {cex['values']}"


def main(tier, seed):
    rep = Report(PID, tier, seed,
                 "bounded symbolic execution of the real SDK -> Builder -> assemble_subroutine -> Executor pipeline on host programs "
                 "of a small DSL with symbolic array contents, constants, moduli and measurement outcomes; after every flush the "
                 "host-visible handles, controller memory and event trace are compared with a direct evaluation of the program "
                 "as z3 formulas; counterexamples replayed on plain ints")
    specs = program_specs(tier, seed)
    rep.bounds = [f"{len(specs)} host programs: every single statement block (10 atoms, 8 loop-element bodies, 9 loop_until bodies, each atom "
                  "under every if (6 predicates x operand kinds x context/callback form), loop (0,1,3 iterations, context/body form), "
                  "foreach and enumerate wrapper), in the declaring segment and in a later segment; pairs of blocks with and without a "
                  "flush between them; nested wrappers of depth 2 (seeded sample)",
                  "all initial array contents (incl. the all-equal case), comparison constants, addends, moduli >= 1 and 8 measurement outcomes symbolic",
                  "loop bounds concrete 0..3, loop_until max 1..3"]
    rep.outside = ["programs beyond the size / nesting bound", "EPR operations (C09-C12)", "host programs that read an undefined value"]
    rep.stubs = ["PipeConnection hands Subroutine objects to the Executor without serialisation (C01/C02/C15 cover it)",
                 "TraceExecutor: quantum operations are recorded as events, outcomes come from a symbolic script"]
    for r in pmap(work, specs, chunksize=4):
        rep.merge_worker("programs", r)
    rep.section("programs", None, programs=len(specs))
    ex = Explorer(max_paths=3000, budget_s=90)
    ex.run(make_body({"prog": DECL + [["q", "q"], ["g", "q", "H"], ["m", "q", FA0, False], ["flush"]]}, falsify=True))
    rep.witness("event trace with falsified oracle", any(c.label == "event_trace" for c in ex.cexs))

    def one():
        Explorer(max_paths=4, budget_s=30).run(make_body({"prog": DECL + until_atoms(1)[0] + [["flush"]] + loop_atoms(2)[6] + [["flush"]]}))
    rep.functions_encoded |= trace_functions(one)
    return rep.finish(replay)
