"""C12 -- the controller matches entanglement responses to requests under any interleaving.

The real Executor runs a subroutine with several create_epr / recv_epr requests as a coroutine; the
harness subclass yields after every instruction and at the documented `_do_wait` hook.  The SCHEDULE is
a vector of explorer choice points: at each point either the subroutine advances by one instruction
or the link layer delivers one more response (of any kind that still has undelivered pairs; receive-
role responses may arrive before their recv_epr has run).  Every interleaving inside the bound is
one path; response payloads are symbolic.  Oracle: a reference matcher (FIFO per (remote node,
purpose, role)) written below; obligations on the final state and at every wait instruction.
"""
import itertools

import z3

from ..common import Report, pmap, trace_functions, worker_result
from ..netharness import NetExecutor
from ..symx import EQ, Explorer, Infeasible, Ob, PathAbort, run_concrete

from netqasm.lang.parsing import parse_text_subroutine
from netqasm.qlink_compat import LinkLayerOKTypeK, LinkLayerOKTypeM, ReturnType
from netqasm.sdk.shared_memory import SharedMemoryManager

PID = "C12"
PURPOSE_OFFSET = 5      # purpose id = socket id + 5: the two must not be confused inside the executor
APP = 0
REMOTE = 1
OK_FIELDS = 10


class Blocked(Exception):
    pass


class CoExecutor(NetExecutor):
    """yields after every instruction and while a wait instruction polls"""

    MAX_STEPS = 600

    def __init__(self, *a, **k):
        super().__init__(*a, **k)
        self.polls = 0
        self.executed = []        # (pc, mnemonic) of completed instructions
        self.wait_checks = []     # (mnemonic, ok) evaluated when a wait instruction completes

    def _execute_command(self, subroutine_id, command):
        pc = self._program_counters[subroutine_id]
        yield from super()._execute_command(subroutine_id, command)
        self.executed.append((pc, command.mnemonic))
        if command.mnemonic.startswith("wait"):
            self.wait_checks.append((command.mnemonic, self._wait_satisfied(subroutine_id, command)))
        yield ("step", pc)

    def _wait_satisfied(self, subroutine_id, command):
        app_id = self._get_app_id(subroutine_id)
        if command.mnemonic == "wait_single":
            return self._get_array_entry(app_id=app_id, array_entry=command.entry) is not None
        vals = self._get_array_slice(app_id=app_id, array_slice=command.slice)
        if command.mnemonic == "wait_all":
            return all(v is not None for v in vals)
        return any(v is not None for v in vals)

    def _do_wait(self):
        self.polls += 1
        yield ("blocked", self.polls)


def program_text(reqs, tail):
    """reqs: list of dicts {role, sock, tp ('K'|'M'), n, qids}; arrays: request r uses results @3r, qubit ids @3r+1, args @3r+2"""
    lines = ["# NETQASM 1.0", "# APPID 0"]
    for r, q in enumerate(reqs):
        res, qa, args = 3 * r, 3 * r + 1, 3 * r + 2
        lines.append(f"array {OK_FIELDS * q['n']} @{res}")
        if q["tp"] == "K":
            lines.append(f"array {q['n']} @{qa}")
            for k, v in enumerate(q["qids"]):
                lines.append(f"store {v} @{qa}[{k}]")
        if q["role"] == "create":
            lines.append(f"array 20 @{args}")
            lines.append(f"store {0 if q['tp'] == 'K' else 1} @{args}[0]")
            lines.append(f"store {q['n']} @{args}[1]")
    for op in tail:
        if op[0] == "req":
            r = op[1]
            q = reqs[r]
            res, qa, args = 3 * r, 3 * r + 1, 3 * r + 2
            qreg = qa if q["tp"] == "K" else 0
            if q["role"] == "create":
                lines.append(f"create_epr {REMOTE} {q['sock']} {qreg} {args} {res}")
            else:
                lines.append(f"recv_epr {REMOTE} {q['sock']} {qreg} {res}")
        elif op[0] == "wait_all":
            r = op[1]
            lines.append(f"wait_all @{3 * r}[0:{OK_FIELDS * reqs[r]['n']}]")
        elif op[0] == "wait_pair":
            r, k = op[1], op[2]
            lines.append(f"wait_all @{3 * r}[{OK_FIELDS * k}:{OK_FIELDS * (k + 1)}]")
        elif op[0] == "wait_slice":
            # a slice that is not aligned to pair boundaries (array entries lo .. hi-1)
            r, lo, hi = op[1], op[2], op[3]
            lines.append(f"wait_all @{3 * r}[{lo}:{hi}]")
        elif op[0] == "wait_any":
            r = op[1]
            lines.append(f"wait_any @{3 * r}[0:{OK_FIELDS * reqs[r]['n']}]")
        elif op[0] == "wait_single":
            r, k = op[1], op[2]
            lines.append(f"wait_single @{3 * r}[{OK_FIELDS * k + 9}]")
        elif op[0] == "qalloc":
            lines += [f"set Q0 {op[1]}", "qalloc Q0"]
        elif op[0] == "qfree":
            lines += [f"set Q0 {op[1]}", "qfree Q0"]
        elif op[0] == "nop":
            lines.append("set R9 0")
    return "\n".join(lines)


def make_body(spec, falsify=False):
    if spec.get("kind") == "reopen":
        return body_reopen(spec)
    reqs, tail = spec["reqs"], spec["tail"]
    text = program_text(reqs, tail)

    def body(inp):
        SharedMemoryManager.reset_memories()
        ex = CoExecutor("ctrl")
        ex.network_stack.purpose_offset = PURPOSE_OFFSET
        ex.init_new_application(app_id=APP, max_qubits=4)
        sub = parse_text_subroutine(text)
        gen = ex.execute_subroutine(sub)
        site = {"scenario": spec["name"]}
        # ---- environment / reference matcher state
        undelivered = [q["n"] for q in reqs]               # pairs the link layer still has to deliver, per request
        started = [False] * len(reqs)                      # has the request's instruction executed
        req_instr_pcs = []                                 # filled lazily: order of create/recv instructions = order of reqs in `tail`
        order = [op[1] for op in tail if op[0] == "req"]
        nstarted = 0
        ref_assigned = {r: [] for r in range(len(reqs))}   # request -> list of response payloads in assignment order
        ref_unmatched = []                                 # (kind, payload) that arrived before any request of their kind
        ref_deferred = []                                  # keep responses waiting for a busy virtual qubit: (r, payload)
        kinds = {}
        for r, q in enumerate(reqs):
            kinds.setdefault((q["sock"], q["role"], q["tp"]), []).append(r)
        delivered_n = 0
        alive = True
        blocked = False
        new_since_block = False
        used_phys = set()
        steps = 0
        max_sched = spec.get("max_sched", 400)

        def ref_oldest(kind):
            for r in kinds[kind]:
                if started[r] and len(ref_assigned[r]) + sum(1 for (rr, _p) in ref_deferred if rr == r) < reqs[r]["n"]:
                    return r
            return None

        def ref_try_unmatched():
            # responses that arrived before a request of their kind existed are consumed in arrival order
            i = 0
            while i < len(ref_unmatched):
                kind, payload = ref_unmatched[i]
                r = ref_oldest(kind)
                if r is None:
                    i += 1
                    continue
                ref_unmatched.pop(i)
                ref_assigned[r].append(payload)

        try:
            while True:
                steps += 1
                if steps > max_sched:
                    return []          # schedule longer than the bound: outside
                options = []
                if alive and not (blocked and not new_since_block):
                    options.append(("advance",))
                for kind, rs in kinds.items():
                    sock, role, tp = kind
                    remaining = sum(undelivered[r] for r in rs if (role == "recv" or started[r]))
                    if remaining > 0:
                        options.append(("deliver", kind))
                if not options:
                    break
                if not alive and all(o[0] != "deliver" for o in options):
                    break
                ch = options[inp.choice(f"sched{steps}", len(options))]
                # the simulator's retry loop for pending responses runs concurrently: retry before every scheduling step
                ex._handle_pending_epr_responses()
                if ch[0] == "advance":
                    try:
                        ev = next(gen)
                        while ev is None:          # internal yields of the base class hooks (e.g. _clear_phys_qubit_in_memory)
                            ev = next(gen)
                    except StopIteration:
                        alive = False
                        continue
                    if ev[0] == "blocked":
                        blocked = True
                        new_since_block = False
                    else:
                        blocked = False
                        if ex.executed and ex.executed[-1][1] in ("create_epr", "recv_epr") and nstarted < len(order) \
                                and sum(1 for e in ex.executed if e[1] in ("create_epr", "recv_epr")) > nstarted:
                            started[order[nstarted]] = True
                            nstarted += 1
                            ref_try_unmatched()
                else:
                    kind = ch[1]
                    sock, role, tp = kind
                    # the link layer serves the oldest request of this kind that still has pairs to deliver
                    r = next(rr for rr in kinds[kind] if undelivered[rr] > 0 and (role == "recv" or started[rr]))
                    undelivered[r] -= 1
                    delivered_n += 1
                    pay = {"create_id": inp.int(f"cid{delivered_n}"), "goodness": inp.int(f"good{delivered_n}"),
                           "bell": inp.int(f"bell{delivered_n}", 0, 3), "seq": delivered_n}
                    phys = 0
                    if tp == "K":
                        # the link layer takes the qubit through the executor's helper, which must reserve it (a response that is still
                        # waiting for its virtual qubit keeps its physical one)
                        phys = ex._get_unused_physical_qubit()
                        used_phys.add(phys)
                        resp = LinkLayerOKTypeK(type=ReturnType.OK_K, create_id=pay["create_id"], logical_qubit_id=phys,
                                                directionality_flag=0 if role == "create" else 1, sequence_number=pay["seq"],
                                                purpose_id=sock + PURPOSE_OFFSET, remote_node_id=REMOTE, goodness=pay["goodness"], goodness_time=0,
                                                bell_state=pay["bell"])
                        pay["phys"] = phys
                    else:
                        resp = LinkLayerOKTypeM(type=ReturnType.OK_M, create_id=pay["create_id"], measurement_outcome=pay["bell"] % 2,
                                                measurement_basis=0, directionality_flag=0 if role == "create" else 1,
                                                sequence_number=pay["seq"], purpose_id=sock + PURPOSE_OFFSET, remote_node_id=REMOTE,
                                                goodness=pay["goodness"], bell_state=pay["bell"])
                    pay["fields"] = [x.value if hasattr(x, "value") and not isinstance(x, int) else x for x in resp]
                    if spec.get("wire") == "qlink1":
                        # the same response in the qlink-interface 1.0 form (converted by the executor on arrival)
                        import qlink_interface as ql
                        if tp == "K":
                            resp = ql.ResCreateAndKeep(create_id=pay["create_id"], directionality_flag=0 if role == "create" else 1,
                                                       sequence_number=pay["seq"], purpose_id=sock + PURPOSE_OFFSET, remote_node_id=REMOTE,
                                                       goodness=pay["goodness"], bell_state=pay["bell"], logical_qubit_id=phys,
                                                       time_of_goodness=0)
                        else:
                            resp = ql.ResMeasureDirectly(create_id=pay["create_id"], directionality_flag=0 if role == "create" else 1,
                                                         sequence_number=pay["seq"], purpose_id=sock + PURPOSE_OFFSET, remote_node_id=REMOTE,
                                                         goodness=pay["goodness"], bell_state=pay["bell"],
                                                         measurement_outcome=pay["bell"] % 2, measurement_basis=ql.MeasurementBasis.Z)
                    # reference matcher
                    tgt = ref_oldest(kind)
                    if tgt is None:
                        ref_unmatched.append((kind, pay))
                    else:
                        ref_assigned[tgt].append(pay)
                    new_since_block = True
                    ex._handle_epr_response(resp)
            # drain: let the retry loop and the subroutine finish
            ex._handle_pending_epr_responses()
        except (PathAbort, Infeasible):
            raise
        except Exception as e:  # noqa
            return [Ob("controller_raises", False, dict(site, exc=type(e).__name__), info=f"{type(e).__name__}: {str(e)[:300]}")]
        obs = []
        obs.append(Ob("subroutine_completes", not alive, site, info={"executed": len(ex.executed)}))
        if alive:
            return obs
        arrays = ex._app_arrays[APP]._arrays
        um = ex._qubit_unit_modules[APP]
        for r, q in enumerate(reqs):
            got = arrays.get(3 * r)
            exp = []
            for k in range(q["n"]):
                if k < len(ref_assigned[r]):
                    exp += ref_assigned[r][k]["fields"]
                else:
                    exp += [None] * OK_FIELDS
            ok = EQ(list(got), exp) if got is not None else z3.BoolVal(False)
            if falsify and r == 0:
                ok = z3.And(ok, z3.BoolVal(False))
            obs.append(Ob("pair_k_fills_slice_k_of_its_request", ok, site, info={"request": r}))
            if q["tp"] == "K":
                for k, v in enumerate(q["qids"]):
                    if k < len(ref_assigned[r]) and not any(op == ["qfree", v] or tuple(op) == ("qfree", v) for op in tail):
                        obs.append(Ob("pair_k_maps_kth_virtual_qubit", um[v] == ref_assigned[r][k]["phys"], site,
                                      info={"request": r, "pair": k, "virtual": v, "mapped_to": um[v]}))
        consumed = sum(len(v) for v in ref_assigned.values())
        obs.append(Ob("every_response_consumed_exactly_once", len(ex._pending_epr_responses) == 0 and consumed == delivered_n
                      and not ref_unmatched, site, info={"pending": len(ex._pending_epr_responses), "delivered": delivered_n}))
        left = {k: len(v) for k, v in list(ex._epr_create_requests.items()) + list(ex._epr_recv_requests.items()) if v}
        obs.append(Ob("requests_retired_after_their_pairs", not left, site, info={"left": str(left)}))
        obs.append(Ob("wait_resumes_only_when_defined", all(ok for _m, ok in ex.wait_checks), site,
                      info={"waits": [(m, bool(ok)) for m, ok in ex.wait_checks]}))
        mapped = [p for p in um if p is not None]
        obs.append(Ob("no_physical_qubit_mapped_twice", len(mapped) == len(set(mapped)) and set(mapped) == set(ex._used_physical_qubit_addresses),
                      site, info={"unit_module": list(um), "used": sorted(ex._used_physical_qubit_addresses)}))
        return obs

    return body


REOPEN_PROGRAM = """# NETQASM 1.0
# APPID {app}
array 10 @0
array 20 @1
set R5 1
store R5 @1[0]
set R5 1
store R5 @1[1]
set R0 1
set R1 0
set R2 1
set R3 0
create_epr R0 R1 C0 R2 R3
wait_all @0[0:10]
"""


def body_reopen(spec):
    """A local EPR socket id is opened again (by the next application, or by the same one) towards another remote socket of the same
    node: the purpose id the network stack reports for it changes with the re-opening.  The second request must be sent and matched
    under the NEW purpose id (anything the executor remembers per (node, socket) must not outlive the socket)."""
    same_app = spec.get("same_app", False)

    def body(inp):
        SharedMemoryManager.reset_memories()
        ex = CoExecutor("ctrl")
        stack = ex.network_stack
        opened = {}
        stack.setup_epr_socket = lambda epr_socket_id, remote_node_id, remote_epr_socket_id, timeout=1.0: opened.__setitem__((remote_node_id, epr_socket_id), remote_epr_socket_id)
        stack.get_purpose_id = lambda remote_node_id, epr_socket_id: opened[(remote_node_id, epr_socket_id)]
        site = {"scenario": spec["name"]}
        obs = []

        def drain(g):
            if g is not None and hasattr(g, "__next__"):
                list(g)

        for phase, (app, purpose) in enumerate(((0, 5), (0 if same_app else 1, 6))):
            if phase == 0 or not same_app:
                ex.init_new_application(app_id=app, max_qubits=2)
            drain(ex.setup_epr_socket(epr_socket_id=0, remote_node_id=REMOTE, remote_epr_socket_id=purpose))
            nreq = len(stack.requests)
            gen = ex.execute_subroutine(parse_text_subroutine(REOPEN_PROGRAM.format(app=app)))
            alive = True
            for _ in range(200):
                try:
                    ev = next(gen)
                except StopIteration:
                    alive = False
                    break
                if ev is not None and ev[0] == "blocked":
                    break
            sent = stack.requests[nreq:]
            obs.append(Ob("request_carries_the_sockets_current_purpose_id", len(sent) == 1 and sent[0].purpose_id == purpose, dict(site, phase=phase),
                          info={"sent": [getattr(r_, "purpose_id", None) for r_ in sent], "want": purpose}))
            cid, out = inp.int(f"cid{phase}", 0, 1000), inp.bit(f"out{phase}")
            ex._handle_epr_response(LinkLayerOKTypeM(type=ReturnType.OK_M, create_id=cid, measurement_outcome=out, measurement_basis=0, directionality_flag=0,
                                                     sequence_number=phase + 1, purpose_id=purpose, remote_node_id=REMOTE, goodness=0, bell_state=0))
            for _ in range(200):
                if not alive:
                    break
                ex._handle_pending_epr_responses()
                try:
                    ev = next(gen)
                except StopIteration:
                    alive = False
                if ev is not None and ev[0] == "blocked" and ev[1] > 50:
                    break
            arr = ex._app_arrays[app]._arrays.get(0) or []
            obs.append(Ob("response_consumed_and_subroutine_completes", (not alive) and ex._pending_epr_responses == [], dict(site, phase=phase),
                          info={"finished": not alive, "pending": len(ex._pending_epr_responses)}))
            if len(arr) == 10 and arr[2] is not None:
                obs.append(Ob("pair_k_fills_slice_k_of_its_request", z3.And(EQ(arr[1], cid), EQ(arr[2], out)), dict(site, phase=phase)))
            if not same_app:
                drain(ex.stop_application(app_id=app))
        return obs
    return body


def scenarios(tier):
    K = lambda role, sock, n, qids: {"role": role, "sock": sock, "tp": "K", "n": n, "qids": qids}  # noqa
    M = lambda role, sock, n: {"role": role, "sock": sock, "tp": "M", "n": n, "qids": []}  # noqa
    S = []
    S.append({"name": "recv_keep_2", "reqs": [K("recv", 0, 2, [0, 1])], "tail": [["req", 0], ["wait_all", 0]]})
    S.append({"name": "recv_keep_2_unaligned_wait", "reqs": [K("recv", 0, 2, [0, 1])], "tail": [["req", 0], ["wait_slice", 0, 5, 13], ["wait_all", 0]]})
    S.append({"name": "create_keep_2_wait_pairs", "reqs": [K("create", 0, 2, [0, 1])], "tail": [["req", 0], ["wait_pair", 0, 0], ["wait_pair", 0, 1]]})
    S.append({"name": "two_creates_same_socket", "reqs": [K("create", 0, 1, [0]), K("create", 0, 2, [1, 2])],
              "tail": [["req", 0], ["req", 1], ["wait_all", 1], ["wait_all", 0]]})
    S.append({"name": "two_recvs_same_socket", "reqs": [K("recv", 0, 1, [0]), K("recv", 0, 1, [1])],
              "tail": [["req", 0], ["nop"], ["req", 1], ["wait_all", 0], ["wait_all", 1]]})
    S.append({"name": "create_and_recv_same_socket", "reqs": [K("create", 0, 1, [0]), K("recv", 0, 1, [1])],
              "tail": [["req", 0], ["req", 1], ["wait_all", 1], ["wait_all", 0]]})
    S.append({"name": "two_sockets", "reqs": [K("recv", 0, 1, [0]), K("recv", 1, 1, [1])],
              "tail": [["req", 0], ["req", 1], ["wait_all", 1], ["wait_all", 0]]})
    if tier == "thorough":
        S.append({"name": "keep_and_measure_2", "reqs": [K("recv", 0, 1, [0]), M("recv", 1, 2)],
                  "tail": [["req", 0], ["req", 1], ["wait_any", 1], ["wait_all", 1], ["wait_single", 0, 0]]})
    S.append({"name": "keep_and_measure", "reqs": [K("recv", 0, 1, [0]), M("create", 1, 2)],
              "tail": [["req", 0], ["req", 1], ["wait_any", 1], ["wait_all", 1], ["wait_single", 0, 0]]})
    S.append({"name": "busy_virtual_qubit", "reqs": [K("recv", 0, 1, [0])],
              "tail": [["qalloc", 0], ["req", 0], ["nop"], ["qfree", 0], ["wait_all", 0]]})
    # the same on the LAST virtual qubit of the unit module (4 qubits): bounds of the "is it still allocated" test
    S.append({"name": "busy_last_virtual_qubit", "reqs": [K("recv", 0, 1, [3])],
              "tail": [["qalloc", 3], ["req", 0], ["nop"], ["qfree", 3], ["wait_all", 0]]})
    S.append({"name": "sequential_same_virtual_qubit", "reqs": [K("recv", 0, 2, [0, 0])],
              "tail": [["req", 0], ["wait_pair", 0, 0], ["qfree", 0], ["wait_pair", 0, 1]]})
    # the same kinds of scenario with responses arriving in qlink-interface 1.0 form
    S.append({"name": "qlink1_create_and_recv_keep", "wire": "qlink1", "reqs": [K("create", 0, 1, [0]), K("recv", 0, 1, [1])],
              "tail": [["req", 0], ["req", 1], ["wait_all", 1], ["wait_all", 0]]})
    S.append({"name": "qlink1_create_and_recv_measure", "wire": "qlink1", "reqs": [M("create", 0, 1), M("recv", 0, 1)],
              "tail": [["req", 0], ["req", 1], ["wait_all", 1], ["wait_all", 0]]})
    S.append({"name": "reopened_socket_next_application", "kind": "reopen"})
    if tier == "thorough":
        S.append({"name": "three_requests", "reqs": [K("create", 0, 1, [0]), K("recv", 0, 2, [1, 2]), M("create", 1, 1)],
                  "tail": [["req", 0], ["req", 1], ["req", 2], ["wait_all", 2], ["wait_all", 1], ["wait_all", 0]]})
        S.append({"name": "three_pairs", "reqs": [K("recv", 0, 3, [0, 1, 2])], "tail": [["req", 0], ["wait_all", 0]]})
        S.append({"name": "reopened_socket_same_application", "kind": "reopen", "same_app": True})
        S.append({"name": "two_creates_two_pairs", "reqs": [K("create", 0, 2, [0, 1]), K("create", 0, 2, [2, 3])],
                  "tail": [["req", 0], ["req", 1], ["wait_all", 0], ["wait_all", 1]]})
    return S


def work(spec):
    ex = Explorer(max_paths=400000, budget_s=1500, max_depth=3000)
    ex.run(make_body(spec))
    res = worker_result(ex, samples=[{"scenario": spec["name"], "interleavings": ex.stats.paths}])
    for c in res["cexs"]:
        c["info"] = {"spec": spec, "detail": c["info"]}
    return res


def replay(harness, cex):
    spec = cex["info"]["spec"]
    res = run_concrete(make_body(spec), cex["values"])
    bad = [(lab, info) for lab, ok, site, info in res if not ok and lab == cex["label"]]
    allbad = [(lab, info) for lab, ok, site, info in res if not ok]
    sched = [cex["values"].get(f"sched{i}") for i in range(1, 60) if f"sched{i}" in cex["values"]]
    return bool(bad), f"replayed schedule {sched} on the real Executor: failing {allbad}; scenario {spec['name']}"


def main(tier, seed):
    rep = Report(PID, tier, seed,
                 "bounded symbolic execution of the real Executor as a coroutine: the schedule (advance one instruction / deliver one "
                 "more response of any kind) is a vector of explorer choice points, so every interleaving inside the bound is a path; "
                 "response payloads are symbolic; the final result arrays, qubit mapping and request queues are compared with a "
                 "reference FIFO matcher by z3; every wait instruction is checked when it completes")
    specs = scenarios(tier)
    rep.bounds = [f"{len(specs)} scenarios with 1-2 (thorough: up to 3) outstanding requests of 1-2 (3) pairs: same / different sockets, create and "
                  "receive roles mixed, keep and measure types, a keep response aimed at a still-allocated virtual qubit, sequential reuse of one "
                  "virtual qubit; a socket id re-opened towards another remote socket (purpose id changes) by the next application; ALL interleavings of instruction steps and deliveries (receive-role responses may precede their recv_epr)",
                  "payload (create id, goodness, Bell state) symbolic; sequence numbers concrete tags"]
    rep.outside = ["error responses", "more than three requests", "the timing of a real simulator's retry loop (the harness retries pending "
                   "responses before every scheduling step)"]
    rep.stubs = ["CoExecutor yields after every instruction and at _do_wait; pending responses are retried before every scheduling step "
                 "(the base class' _wait_to_handle_epr_responses recurses forever; simulators sleep-and-retry)",
                 "link layer: responses of one kind are served to requests in request order (what the matcher's FIFO assumes)"]
    for r in pmap(work, specs):
        rep.merge_worker("interleavings", r)
    rep.section("interleavings", None, scenarios=len(specs))
    ex = Explorer(max_paths=50)
    ex.run(make_body(specs[0], falsify=True))
    rep.witness("result slice with falsified oracle", any(c.label == "pair_k_fills_slice_k_of_its_request" for c in ex.cexs))

    def one():
        Explorer(max_paths=3).run(make_body(specs[2]))
    rep.functions_encoded |= trace_functions(one)
    return rep.finish(replay)
