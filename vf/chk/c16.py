"""C16 -- operands the format cannot represent are rejected, never silently altered.

One operand field at a time is a free 64-bit signed bit-vector *assumed outside* the field's
range (all other operands symbolic in range); the real encoding path of each entry point
(direct construction + bytes(Subroutine), the assembler on IR operands, Subroutine.instantiate,
the SDK) runs on it through the ctypes model, which truncates exactly like real ctypes.
Obligation: an exception is raised.  Counterexample: bytes were produced (replayed with the real
ctypes, where they decode to a different program).
"""
import z3

from .. import codec
from ..codec import (BANKS, OpMaker, RANGE, add_bv_inputs, flavour_classes, make_instr, n_regs,
                     operand_fields, shape_kinds, subprocess_replay)
from ..cmodel import SymBV, Tags
from ..common import Report, pmap, trace_functions, worker_result
from ..symx import Explorer, Ob, PathAbort, cur, run_concrete

from netqasm.lang.instr import DebugInstruction  # noqa: E402
from netqasm.lang.ir import GenericInstr, ICmd, ProtoSubroutine  # noqa: E402
from netqasm.lang.operand import Address, ArrayEntry, ArraySlice, Immediate, Register, Template  # noqa: E402
from netqasm.lang.parsing import deserialize  # noqa: E402
from netqasm.lang.parsing.text import assemble_subroutine  # noqa: E402
from netqasm.lang.subroutine import Subroutine  # noqa: E402

PID = "C16"
FLAVS = ("vanilla", "nv", "reids")
LIMITS = {"regidx": (0, 15), "imm8": (0, 255), "int32": (-2 ** 31, 2 ** 31 - 1), "addr": (-2 ** 31, 2 ** 31 - 1),
          "app_id": (0, 65535), "version": (0, 255)}


def outside(inp, name, kind):
    """a 64-bit signed value assumed outside the range of `kind`"""
    lo, hi = LIMITS[kind]
    v = inp.bv(name, 64, True)
    if inp.symbolic:
        cur().assume((v < lo) | (v > hi))
    return v


class BadOpMaker(OpMaker):
    """like OpMaker but leaf number `target` (0-based, flat order) is out of range"""

    def __init__(self, inp, prefix, banks, target):
        super().__init__(inp, prefix, banks)
        self.target = target
        self.leaf = -1
        self.bad_kind = None

    def _v(self, kind):
        self.leaf += 1
        if self.leaf == self.target:
            self.bad_kind = kind
            return outside(self.inp, "bad", kind)
        return super()._v(kind)


def leaf_kinds(kinds):
    out = []
    for k in kinds:
        out += {"reg": ["regidx"], "entry": ["addr", "regidx"], "slice": ["addr", "regidx", "regidx"]}.get(k, [k])
    return out


def _raises(fn):
    """True iff fn() raises an ordinary exception"""
    try:
        fn()
    except PathAbort:
        raise
    except Exception:  # noqa
        return True
    return False


def body_direct(flav_name, cname, target):
    def body(inp):
        add_bv_inputs(inp)
        if codec.MODEL:
            Tags.reset()
        cls = {c.__name__: c for c in flavour_classes(flav_name)}[cname]
        kinds = shape_kinds(cls)
        mk = BadOpMaker(inp, "o", [(i + 1) % 4 for i in range(5)], target)
        holder = {}

        def run():
            ins = make_instr(cls, kinds, mk)
            holder["raw"] = bytes(Subroutine(instructions=[ins], app_id=inp.bv("app_id", 16, False)))

        r = _raises(run)
        obs = [Ob("rejected", r, {"entry": "direct", "kind": mk.bad_kind or leaf_kinds(kinds)[target]},
                  info={"cls": cname, "flavour": flav_name})]
        if r:
            # a refusal must not depend on it being the first attempt (state kept by the encoder between calls)
            obs.append(Ob("rejected_again", _raises(run), {"entry": "direct_second_attempt", "kind": mk.bad_kind or leaf_kinds(kinds)[target]},
                          info={"cls": cname, "flavour": flav_name}))
        return obs
    return body


def body_header(which):
    def body(inp):
        add_bv_inputs(inp)
        if codec.MODEL:
            Tags.reset()
        app = outside(inp, "bad", "app_id") if which == "app_id" else inp.bv("app_id", 16, False)
        v0 = outside(inp, "bad", "version") if which == "version0" else inp.bv("v0", 8, False)
        v1 = outside(inp, "bad", "version") if which == "version1" else inp.bv("v1", 8, False)
        r = _raises(lambda: bytes(Subroutine(instructions=[], app_id=app, netqasm_version=(v0, v1))))
        return [Ob("rejected", r, {"entry": "direct", "kind": which})]
    return body


# IR-level programs: (instruction, operand builder taking the bad value) -> which field kind it ends up in
def _ir_cases():
    R = lambda i: Register(BANKS[0], i)  # noqa
    Q = lambda i: Register(BANKS[2], i)  # noqa
    return {
        "set_imm": ("int32", lambda v: [ICmd(GenericInstr.SET, operands=[R(1), v])]),
        "literal_in_register_slot": ("int32", lambda v: [ICmd(GenericInstr.ADD, operands=[R(1), R(2), v])]),
        "jmp_target": ("int32", lambda v: [ICmd(GenericInstr.JMP, operands=[v])]),
        "branch_target": ("int32", lambda v: [ICmd(GenericInstr.BEQ, operands=[R(0), R(1), v])]),
        "rot_numerator": ("imm8", lambda v: [ICmd(GenericInstr.ROT_X, operands=[Q(0), v, 1])]),
        "rot_denominator": ("imm8", lambda v: [ICmd(GenericInstr.ROT_Z, operands=[Q(0), 1, v])]),
        "meas_basis_rot": ("imm8", lambda v: [ICmd(GenericInstr.MEAS_BASIS, operands=[Q(0), Register(BANKS[3], 0), 1, v, 2, 3])]),
        "array_address": ("addr", lambda v: [ICmd(GenericInstr.ARRAY, operands=[R(0), Address(v)])]),
        "entry_address": ("addr", lambda v: [ICmd(GenericInstr.STORE, operands=[R(0), ArrayEntry(Address(v), R(1))])]),
        "entry_literal_index": ("int32", lambda v: [ICmd(GenericInstr.LOAD, operands=[R(0), ArrayEntry(Address(1), v)])]),
        "slice_literal_bound": ("int32", lambda v: [ICmd(GenericInstr.WAIT_ALL, operands=[ArraySlice(Address(1), 0, v)])]),
        "register_index": ("regidx", lambda v: [ICmd(GenericInstr.SET, operands=[R(v), 0])]),
        "qubit_register_index": ("regidx", lambda v: [ICmd(GenericInstr.H, operands=[Q(v)])]),
    }


def body_assemble(case):
    kind, build = _ir_cases()[case]

    def body(inp):
        add_bv_inputs(inp)
        if codec.MODEL:
            Tags.reset()
        v = outside(inp, "bad", kind)

        def run():
            proto = ProtoSubroutine(commands=build(v), app_id=0, netqasm_version=(0, 0))
            sub = assemble_subroutine(proto)
            bytes(sub)

        return [Ob("rejected", _raises(run), {"entry": "assemble", "kind": kind}, info={"case": case})]
    return body


def body_instantiate(which, spec_prior=False):
    def body(inp):
        add_bv_inputs(inp)
        if codec.MODEL:
            Tags.reset()
        kind = "app_id" if which == "app_id" else "imm8"
        v = outside(inp, "bad", kind)

        def run():
            proto = ProtoSubroutine(commands=[ICmd(GenericInstr.ROT_Y, operands=[Register(BANKS[2], 0), Template("n"), 2])],
                                    app_id=0, netqasm_version=(0, 0))
            sub = assemble_subroutine(proto)
            if spec_prior:
                # the same object was instantiated and encoded with valid values before (what a cached header / cached bytes would keep)
                sub2 = assemble_subroutine(ProtoSubroutine(commands=[ICmd(GenericInstr.ROT_Y, operands=[Register(BANKS[2], 0), 4, 2])], app_id=0, netqasm_version=(0, 0)))
                sub2.instantiate(2, {})
                bytes(sub2)
                if which == "app_id":
                    sub2.instantiate(v, {})
                    bytes(sub2)
                    return
            if which == "app_id":
                sub.instantiate(v, {"n": 3})
            else:
                sub.instantiate(1, {"n": v})
            bytes(sub)

        return [Ob("rejected", _raises(run), {"entry": "instantiate" + ("_after_valid_encoding" if spec_prior else ""), "kind": kind})]
    return body


def body_sdk(case):
    def body(inp):
        add_bv_inputs(inp)
        if codec.MODEL:
            Tags.reset()
        from netqasm.sdk.connection import DebugConnection
        from netqasm.sdk.qubit import Qubit
        from netqasm.sdk.shared_memory import SharedMemoryManager
        from netqasm.sdk.connection import BaseNetQASMConnection
        kind = {"rot_n": "imm8", "rot_d": "imm8", "array_init": "int32", "app_id": "app_id", "array_len": "int32"}[case]
        v = outside(inp, "bad", kind)
        if case == "app_id" and inp.symbolic:
            # the connection hashes its app id (dict key): the value is concretised by forking, so this one case
            # is bounded to the 16 values next to the range
            cur().assume(((v >= -8) & (v <= -1)) | ((v >= 65536) & (v <= 65543)))

        def run():
            SharedMemoryManager.reset_memories()
            BaseNetQASMConnection._app_ids.clear()
            DebugConnection.node_ids = {"Alice": 0}
            kw = {"app_id": v} if case == "app_id" else {}
            with DebugConnection("Alice", **kw) as conn:
                if case == "rot_n":
                    Qubit(conn).rot_X(n=v, d=1)
                elif case == "rot_d":
                    Qubit(conn).rot_Z(n=1, d=v)
                elif case == "array_init":
                    conn.new_array(init_values=[1, v])
                else:
                    Qubit(conn).H()
                conn.flush()

        return [Ob("rejected", _raises(run), {"entry": "sdk", "kind": kind}, info={"case": case})]
    return body


def body_from_key(key):
    k = key[0]
    if k == "direct":
        return body_direct(key[1], key[2], key[3])
    if k == "header":
        return body_header(key[1])
    if k == "assemble":
        return body_assemble(key[1])
    if k == "instantiate":
        return body_instantiate(key[1], spec_prior=len(key) > 2)
    if k == "sdk":
        return body_sdk(key[1])
    raise KeyError(key)


def work(key):
    ex = Explorer(max_paths=20000, budget_s=120, max_cex=50)
    ex.run(body_from_key(key))
    res = worker_result(ex, samples=[{"harness": list(key), "paths": ex.stats.paths}])
    for c in res["cexs"]:
        c["info"] = {"key": list(key), "detail": c["info"]}
    return res


def replay(harness, cex):
    if codec.MODEL:
        return subprocess_replay(PID, harness, cex)
    key = cex["info"]["key"]
    res = run_concrete(body_from_key(key), cex["values"])
    bad = [(lab, site) for lab, ok, site, _ in res if not ok]
    return bool(bad), f"real ctypes: no exception for unrepresentable operand, key={key} inputs={cex['values']}"


def main(tier, seed):
    rep = Report(PID, tier, seed,
                 "bounded symbolic execution of the real encoding paths with one operand a free 64-bit vector assumed outside its "
                 "field range; obligation 'an exception is raised' decided by z3 (QF_BV) on every path; counterexamples replayed "
                 "with real ctypes")
    rep.bounds = ["every operand field of every instruction class of every flavour (direct construction + bytes(Subroutine))",
                  "header fields app id / version bytes", "assembler on IR operands: 13 literal/address/register-index positions",
                  "Subroutine.instantiate (template value, app id)", "SDK: rotation numerator/denominator, array initial value, app id",
                  "out-of-range values: all 64-bit signed integers outside the field range (SDK app id: the 16 values adjacent to 0..65535, because the connection hashes it)"]
    rep.outside = ["integers beyond +-2^63", "text-level numerals (token lemmas belong to C03/C17)"]
    rep.stubs = ["ctypes replaced by vf/cmodel.py (truncating stores validated against real ctypes on every run)"]
    from . import _cmodel_validate
    nchk, problems = _cmodel_validate.validate(seed)
    rep.extra["cmodel_validation"] = {"classes_checked": nchk, "problems": problems}
    for p in problems:
        rep.add_inconclusive("ctypes model disagrees with real ctypes: " + p)
    keys = []
    for fname in FLAVS:
        for c in flavour_classes(fname):
            if issubclass(c, DebugInstruction):
                continue
            if fname != "vanilla" and c.__module__.endswith("core"):
                continue  # core classes are shared objects: checked once
            for t in range(len(leaf_kinds(shape_kinds(c)))):
                keys.append(("direct", fname, c.__name__, t))
    keys += [("header", w) for w in ("app_id", "version0", "version1")]
    keys += [("assemble", c) for c in _ir_cases()]
    keys += [("instantiate", w) for w in ("template", "app_id")]
    keys += [("instantiate", "app_id", "after_valid_encoding")]
    keys += [("sdk", c) for c in ("rot_n", "rot_d", "array_init", "app_id")]
    for r in pmap(work, keys):
        rep.merge_worker("reject", r)
    rep.section("reject", None, harnesses=len(keys))
    # vacuity: the same harness with an in-range value must NOT raise (so 'raises' is not vacuous)
    ex = Explorer(max_paths=3000, budget_s=90)

    def twin(inp):
        add_bv_inputs(inp)
        Tags.reset()
        v = inp.bv("ok", 8, False)
        r = _raises(lambda: bytes(Subroutine(instructions=[flavour_classes("vanilla")[3](reg=Register(BANKS[0], 1), imm=Immediate(v))], app_id=1)))
        return [Ob("rejected", r, {})]
    ex.run(twin)
    rep.witness("in-range operand must not be rejected (obligation 'raises' is falsifiable)", len(ex.cexs) > 0)

    def one():
        if codec.MODEL:
            Explorer(max_paths=4, budget_s=30).run(body_assemble("entry_literal_index"))
            Explorer(max_paths=4, budget_s=30).run(body_sdk("rot_n"))
    rep.functions_encoded |= trace_functions(one)
    return rep.finish(replay)
