"""C02 -- wire format follows the fixed 7-byte NetQASM command layout.

The real ``bytes(Subroutine)`` is executed on symbolic operands (bit-vectors, ctypes model) and
compared, byte for byte as z3 bit-vector equalities, with an independent reference encoder
(vf/codec.py: ref_command_bytes / ref_header_bytes) written from the layout sentence of the
property and the pinned opcode / operand-order table spec/wire_table.json.  Every bit of every
field is a free variable, which subsumes walking-ones patterns.
"""
import z3

from .. import codec
from ..codec import (OpMaker, add_bv_inputs, byte_terms, flavour_classes, make_instr, n_regs,
                     operand_fields, ref_command_bytes, ref_header_bytes, spec_row, subprocess_replay, SPEC)
from ..cmodel import Tags
from ..common import Report, pmap, trace_functions, worker_result
from ..symx import Explorer, Ob, PathAbort, run_concrete
from .c01 import bank_assignments

from netqasm.lang.instr import DebugInstruction  # noqa: E402
from netqasm.lang.parsing import deserialize  # noqa: E402
from netqasm.lang.subroutine import Subroutine  # noqa: E402
from ..codec import EQV, eq_operand  # noqa: E402

PID = "C02"
FLAVS = ("vanilla", "nv", "reids")


def make_body(flav_name, cls_names, banks_per_slot, falsify=False):
    def body(inp):
        add_bv_inputs(inp)
        if codec.MODEL:
            Tags.reset()
        by_name = {c.__name__: c for c in flavour_classes(flav_name)}
        app = inp.bv("app_id", 16, False)
        v0 = inp.bv("ver0", 8, False)
        v1 = inp.bv("ver1", 8, False)
        instrs, refs = [], []
        site0 = {"flavour": flav_name}
        for slot, (cn, banks) in enumerate(zip(cls_names, banks_per_slot)):
            cls = by_name[cn]
            row = spec_row(flav_name, cls.mnemonic)
            if row is None:
                return [Ob("in_published_table", False, dict(site0, mnemonic=cls.mnemonic, cls=cn))]
            opcode, kinds = row
            if len(kinds) != len(operand_fields(cls)):
                return [Ob("operand_count", False, dict(site0, mnemonic=cls.mnemonic, cls=cn))]
            mk = OpMaker(inp, f"s{slot}", banks)
            try:
                instrs.append(make_instr(cls, kinds, mk))
            except PathAbort:
                raise
            except Exception as e:  # noqa
                return [Ob("construct", False, dict(site0, mnemonic=cls.mnemonic, exc=type(e).__name__), info=repr(e)[:200])]
            if falsify:
                opcode += 1
            refs.append((cls.mnemonic, ref_command_bytes(opcode, mk.ref)))
        app2 = inp.bv("app_id2", 16, False)
        try:
            sub = Subroutine(instructions=instrs, app_id=app, netqasm_version=(v0, v1))
            raw = bytes(sub)
            # the same object re-targeted at another application and serialised again (app_id setter)
            sub.app_id = app2
            raw2 = bytes(sub)
            # and through instantiate(), which every SDK flush calls: it rebuilds each instruction from its `operands` list
            sub.instantiate(app2, {})
            raw3 = bytes(sub)
        except PathAbort:
            raise
        except Exception as e:  # noqa
            return [Ob("encode", False, dict(site0, mnemonic=refs[0][0], exc=type(e).__name__), info=repr(e)[:200])]
        n = SPEC["command_bytes"]
        obs = [Ob("length", len(raw) == 4 + n * len(instrs), dict(site0, mnemonic="<subroutine>"))]
        if len(raw) != 4 + n * len(instrs):
            return obs
        got = byte_terms(raw)
        hdr = ref_header_bytes(v0, v1, app)
        obs.append(Ob("header", z3.And(*[g == h for g, h in zip(got[:4], hdr)]), dict(site0, mnemonic="<header>")))
        for slot, (mn, ref) in enumerate(refs):
            chunk = got[4 + n * slot: 4 + n * (slot + 1)]
            st = dict(site0, mnemonic=mn)
            obs.append(Ob("opcode", chunk[0] == ref[0], st))
            obs.append(Ob("operand_bytes", z3.And(*[g == h for g, h in zip(chunk[1:], ref[1:])]), st))
        got2 = byte_terms(raw2)
        ref2 = ref_header_bytes(v0, v1, app2) + [b for _mn, r in refs for b in r]
        obs.append(Ob("reserialize_after_app_id_change",
                      z3.And(z3.BoolVal(len(got2) == len(ref2)), *[g == h for g, h in zip(got2, ref2)]),
                      dict(site0, mnemonic="<header>")))
        got3 = byte_terms(raw3)
        obs.append(Ob("serialize_after_instantiate",
                      z3.And(z3.BoolVal(len(got3) == len(ref2)), *[g == h for g, h in zip(got3, ref2)]),
                      dict(site0, mnemonic=refs[0][0])))
        # read side: bytes produced by the *reference* encoder (another implementation) must be read back
        # by the real decoder as the intended instructions
        if codec.MODEL:
            wire = bytes(Tags.new(b) for b in hdr + [b for _mn, r in refs for b in r])
        else:
            wire = bytes(z3.simplify(b).as_long() for b in hdr + [b for _mn, r in refs for b in r])
        try:
            back = deserialize(wire, flavour=codec.flavours()[flav_name])
        except PathAbort:
            raise
        except Exception as e:  # noqa
            obs.append(Ob("read_reference_bytes", False, dict(site0, mnemonic=refs[0][0], exc=type(e).__name__), info=repr(e)[:200]))
            return obs
        obs.append(Ob("read_header", z3.And(EQV(back.app_id, app), EQV(back.netqasm_version[0], v0), EQV(back.netqasm_version[1], v1)),
                      dict(site0, mnemonic="<header>")))
        for orig, b in zip(instrs, back.instructions):
            st = dict(site0, mnemonic=orig.mnemonic)
            same = type(orig) is type(b) or (flav_name == "vanilla" and orig.mnemonic == "meas_basis")
            obs.append(Ob("read_class", same, dict(st, decoded_as=type(b).__name__) if not same else st))
            if type(orig) is type(b):
                obs.append(Ob("read_operands", z3.And(*[eq_operand(x, y) for x, y in zip(orig.operands, b.operands)]), st))
        return obs

    return body


def work(item):
    flav_name, cls_names, banks_list = item
    ex_all = Explorer()
    out = []
    for banks_per_slot in banks_list:
        ex = Explorer(max_paths=1500, budget_s=8, max_cex=12)
        ex.run(make_body(flav_name, cls_names, banks_per_slot))
        ex_all.stats.add(ex.stats)
        ex_all.aborts += ex.aborts
        ex_all.unknowns += ex.unknowns
        for c in ex.cexs:
            d = c.as_dict()
            d["info"] = {"flavour": flav_name, "classes": list(cls_names), "banks": [list(b) for b in banks_per_slot], "detail": c.info}
            out.append(d)
    res = worker_result(ex_all, samples=[{"flavour": flav_name, "classes": list(cls_names), "bank_assignments": len(banks_list)}])
    res["cexs"] = out
    return res


def replay(harness, cex):
    if harness == "table":
        v = cex["values"]
        mns = {c.mnemonic for c in flavour_classes(v["flavour"])}
        return v["mnemonic"] not in mns, f"published instruction {v['mnemonic']} missing from flavour {v['flavour']}"
    if codec.MODEL:
        return subprocess_replay(PID, harness, cex)
    info = cex["info"]
    body = make_body(info["flavour"], info["classes"], [tuple(b) for b in info["banks"]])
    res = run_concrete(body, cex["values"])
    bad = [(lab, site) for lab, ok, site, _ in res if not ok and lab == cex["label"]]
    allbad = [(lab, site) for lab, ok, site, _ in res if not ok]
    return bool(bad), f"real ctypes bytes differ from the reference layout: {allbad}; inputs {cex['values']}"


def main(tier, seed):
    rep = Report(PID, tier, seed,
                 "bounded symbolic execution of the real encoder (bytes(Subroutine)) on bit-vector operands; its output is compared "
                 "with an independent reference encoder (layout sentence of C02 + pinned wire table) as 56-bit vector equalities "
                 "decided by z3 (QF_BV) with all operand bits free; counterexamples replayed with real ctypes")
    rep.bounds = ["every instruction class of every flavour, single command (N=1), every bank assignment as in C01",
                  "concatenations of N=2" + (", N=3, 4 and 5" if tier == "thorough" else "") + " commands (representative layouts)",
                  "header: both version bytes and the 16-bit app id symbolic"]
    rep.outside = ["sequences longer than N", "values outside the field ranges (C16)"]
    rep.stubs = ["ctypes replaced by vf/cmodel.py (layout read from real ctypes twins)"]
    rep.assumptions = ["spec/wire_table.json is the published instruction table (transcribed from the pinned commit; the repository has no machine-readable table)"]
    from . import _cmodel_validate
    nchk, problems = _cmodel_validate.validate(seed)
    rep.extra["cmodel_validation"] = {"classes_checked": nchk, "problems": problems}
    for p in problems:
        rep.add_inconclusive("ctypes model disagrees with real ctypes: " + p)
    items = []
    from ..symx import Stats
    st = Stats()
    for fname in FLAVS:
        classes = [c for c in flavour_classes(fname) if not issubclass(c, DebugInstruction)]
        # published rows must exist in the flavour
        mns = {c.mnemonic for c in classes}
        for mn in list(SPEC["core"]) + list(SPEC[fname]):
            st.obligations += 1
            if mn in mns:
                st.discharged += 1
            else:
                st.cex += 1
                rep.add_cex("table", {"label": "published_instruction_present", "site": {"flavour": fname, "mnemonic": mn},
                                      "values": {"flavour": fname, "mnemonic": mn}, "info": None})
        for c in classes:
            row = spec_row(fname, c.mnemonic)
            nreg = n_regs(row[1]) if row else 0
            items.append((fname, (c.__name__,), [(b,) for b in bank_assignments(nreg, tier)]))
        seqs = [("SetInstruction", "StoreInstruction"), ("WaitAllInstruction", "MeasBasisInstruction"),
                ("CreateEPRInstruction", "JmpInstruction"), ("BreakpointInstruction", "ArrayInstruction")]
        if tier == "thorough":
            seqs += [("AddmInstruction", "RetArrInstruction", "BltInstruction"), ("UndefInstruction", "RecvEPRInstruction", "LeaInstruction"),
                     ("LoadInstruction", "SubmInstruction", "WaitAnyInstruction", "BezInstruction"), ("RetRegInstruction", "QAllocInstruction", "BneInstruction", "SubInstruction", "WaitSingleInstruction")]
        for sq in seqs:
            banks = []
            for k, cn in enumerate(sq):
                cls = {c.__name__: c for c in classes}[cn]
                row = spec_row(fname, cls.mnemonic)
                banks.append(tuple((k + i) % 4 for i in range(n_regs(row[1]))))
            items.append((fname, sq, [tuple(banks)]))
    st.paths = 1
    rep.section("table", st)
    for r in pmap(work, items):
        rep.merge_worker("layout", r)
    rep.section("layout", None, items=len(items))
    ex = Explorer(max_paths=3000, budget_s=90)
    ex.run(make_body("nv", ("ControlledRotXInstruction",), [(2, 2)], falsify=True))
    rep.witness("layout with reference opcode+1", any(c.label == "opcode" for c in ex.cexs))

    def one():
        if codec.MODEL:
            Explorer(max_paths=4, budget_s=30).run(make_body("vanilla", ("StoreInstruction", "WaitAllInstruction"), [(0, 1), (2, 3)]))
    rep.functions_encoded |= trace_functions(one)
    return rep.finish(replay)
