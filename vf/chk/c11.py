"""C11 -- EPR requests and results cross the SDK/controller boundary intact.

Request direction: every public create entry point of EPRSocket is called with symbolic time limit and
rotation triples and enumerated enums; the call runs through the real Builder, assembler and Executor
(`_instr_create_epr` / `_get_create_request`) and the request object that reaches the network stack
is compared field by field with the call's parameters, then converted with request_to_qlink_1_0.
Result direction: link-layer responses whose fields are symbolic are delivered for every pair and the
host-side result handles of pair i must read pair i's fields.
"""
import z3

from ..common import Report, pmap, trace_functions, worker_result
from ..netharness import NetExecutor, ok_k, ok_k_qlink1, ok_m, ok_m_qlink1
from ..pipeline import PipeConnection
from ..symx import EQ, Explorer, Infeasible, Ob, PathAbort, SymInt, run_concrete

import qlink_interface as qlink_1_0
from netqasm import qlink_compat
from netqasm.qlink_compat import EPRType, RandomBasis, RequestType, TimeUnit
from netqasm.sdk.build_epr import EprMeasBasis, basis_to_rotation
from netqasm.sdk.build_types import GenericHardwareConfig, NVHardwareConfig
from netqasm.sdk.connection import DebugConnection
from netqasm.sdk.epr_socket import EPRSocket

PID = "C11"
SOCK_ID = 3
REMOTE_SOCK = 5
REMOTE_NODE = 7


def mk_conn(hw="generic"):
    DebugConnection.node_ids = {"app": 0, "Bob": REMOTE_NODE}
    sock = EPRSocket("Bob", epr_socket_id=SOCK_ID, remote_epr_socket_id=REMOTE_SOCK)
    ex = NetExecutor("ctrl", outcomes=[0] * 8)
    cfg = NVHardwareConfig(5) if hw == "nv" else GenericHardwareConfig(5)
    conn = PipeConnection("app", executor=ex, epr_sockets=[sock], hardware_config=cfg, max_qubits=5)
    return conn, sock, ex


TIME_UNITS = list(TimeUnit)
RBASES = [None] + list(RandomBasis)
BASES = list(EprMeasBasis)


def _enum_val(x):
    return x.value if hasattr(x, "value") and not isinstance(x, int) else x


def body_request(spec):
    entry, number = spec["entry"], spec["number"]

    def body(inp):
        conn, sock, ex = mk_conn()
        site = {"entry": entry}
        vary = spec.get("vary", "all")

        def pick(name, options, group, default_index=1):
            # enumerate this enum only in the scenario that varies its group; elsewhere a fixed non-default member
            if vary in ("all", group):
                return inp.pick(name, options)
            return options[min(default_index, len(options) - 1)]

        tu = pick("time_unit", TIME_UNITS, "time")
        max_time = inp.int("max_time", 0, 2 ** 31 - 1)
        kw = {"number": number, "time_unit": tu, "max_time": max_time}
        exp = {"type": {"keep": RequestType.K, "measure": RequestType.M, "rsp": RequestType.R}[spec["tp"]], "number": number,
               "rot_local": (0, 0, 0), "rot_remote": (0, 0, 0), "rb_local": RandomBasis.NONE, "rb_remote": RandomBasis.NONE}
        if spec["tp"] in ("measure", "rsp"):
            if spec.get("named"):
                bl = pick("basis_local", BASES, "bases", 0)
                kw["basis_local"] = bl
                exp["rot_local"] = basis_to_rotation(bl)
                if spec["tp"] == "measure":
                    br = pick("basis_remote", BASES, "bases", 4)
                    kw["basis_remote"] = br
                    exp["rot_remote"] = basis_to_rotation(br)
            else:
                symside = spec.get("sym", "local")
                rl = tuple(inp.int(f"rl{i}", 0, 31) for i in range(3)) if symside == "local" else (3, 0, 30)
                kw["rotations_local"] = rl
                exp["rot_local"] = rl
                if spec["tp"] == "measure":
                    rr = tuple(inp.int(f"rr{i}", 0, 31) for i in range(3)) if symside == "remote" else (0, 31, 7)
                    kw["rotations_remote"] = rr
                    exp["rot_remote"] = rr
            rbl = pick("random_basis_local", RBASES, "rb", 2)
            if rbl is not None:
                kw["random_basis_local"] = rbl
                exp["rb_local"] = rbl
            if spec["tp"] == "measure":
                rbr = pick("random_basis_remote", RBASES, "rb", 3)
                if rbr is not None:
                    kw["random_basis_remote"] = rbr
                    exp["rb_remote"] = rbr
        try:
            if entry == "create":
                kw["tp"] = {"keep": EPRType.K, "measure": EPRType.M, "rsp": EPRType.R}[spec["tp"]]
                sock.create(**kw)
            elif entry == "create_context":
                with sock.create_context(number=number, time_unit=tu, max_time=max_time) as (q, pair):
                    q.measure()
            else:
                getattr(sock, entry)(**kw)
            creator = True
            for i in range(number):
                if spec["tp"] == "keep":
                    ex.deliveries.append(ok_k(ex, creator=creator, purpose_id=SOCK_ID, remote_node_id=REMOTE_NODE, seq=i))
                else:
                    ex.deliveries.append(ok_m(ex, creator=creator, purpose_id=SOCK_ID, remote_node_id=REMOTE_NODE, seq=i))
            conn.flush()
        except (PathAbort, Infeasible):
            raise
        except Exception as e:  # noqa
            return [Ob("pipeline_raises", False, dict(site, exc=type(e).__name__), info=f"{type(e).__name__}: {str(e)[:300]}")]
        reqs = ex.network_stack.requests
        obs = [Ob("one_request_reaches_the_stack", len(reqs) == 1, site, info={"requests": len(reqs)})]
        if len(reqs) != 1:
            return obs
        r = reqs[0]
        # defaults where the API has none: max_time 0 -> time_unit / max_time default 0
        exp_tu = tu.value
        fields = [
            ("remote_node_id", r.remote_node_id, REMOTE_NODE), ("purpose_id", r.purpose_id, SOCK_ID),
            ("type", _enum_val(r.type), exp["type"].value), ("number", r.number, number),
            ("max_time", r.max_time, max_time),
            ("rotation_X_local1", r.rotation_X_local1, exp["rot_local"][0]), ("rotation_Y_local", r.rotation_Y_local, exp["rot_local"][1]),
            ("rotation_X_local2", r.rotation_X_local2, exp["rot_local"][2]),
            ("rotation_X_remote1", r.rotation_X_remote1, exp["rot_remote"][0]), ("rotation_Y_remote", r.rotation_Y_remote, exp["rot_remote"][1]),
            ("rotation_X_remote2", r.rotation_X_remote2, exp["rot_remote"][2]),
            ("random_basis_local", _enum_val(r.random_basis_local), exp["rb_local"].value),
            ("random_basis_remote", _enum_val(r.random_basis_remote), exp["rb_remote"].value),
        ]
        for name, got, want in fields:
            obs.append(Ob("request_field", EQ(got, want), dict(site, field=name)))
        # the time unit only matters when a time limit is given
        obs.append(Ob("request_field", z3.Or(EQ(max_time, 0), EQ(r.time_unit, exp_tu)) if isinstance(max_time, SymInt)
                      else (max_time == 0 or r.time_unit == exp_tu), dict(site, field="time_unit")))
        obs.append(Ob("request_enum_types", isinstance(r.type, RequestType) and isinstance(r.random_basis_local, RandomBasis)
                      and isinstance(r.random_basis_remote, RandomBasis), dict(site, field="enum members"),
                      info={"type": type(r.type).__name__, "rb_local": type(r.random_basis_local).__name__}))
        # link-layer interface conversion
        try:
            q = qlink_compat.request_to_qlink_1_0(r)
        except (PathAbort, Infeasible):
            raise
        except Exception as e:  # noqa
            obs.append(Ob("qlink_conversion", False, dict(site, exc=type(e).__name__, tp=spec["tp"]), info=f"{type(e).__name__}: {str(e)[:200]}"))
            return obs
        conv = [EQ(q.remote_node_id, REMOTE_NODE), EQ(q.purpose_id, SOCK_ID), EQ(q.number, number), EQ(q.max_time, max_time)]
        if spec["tp"] == "measure":
            conv += [EQ(q.x_rotation_angle_local_1, exp["rot_local"][0]), EQ(q.y_rotation_angle_local, exp["rot_local"][1]),
                     EQ(q.x_rotation_angle_local_2, exp["rot_local"][2]), EQ(q.x_rotation_angle_remote_1, exp["rot_remote"][0]),
                     EQ(q.y_rotation_angle_remote, exp["rot_remote"][1]), EQ(q.x_rotation_angle_remote_2, exp["rot_remote"][2]),
                     z3.BoolVal(q.random_basis_local == qlink_1_0.RandomBasis(exp["rb_local"].value)),
                     z3.BoolVal(q.random_basis_remote == qlink_1_0.RandomBasis(exp["rb_remote"].value))]
        if spec["tp"] == "rsp":
            conv += [EQ(q.x_rotation_angle_local_1, exp["rot_local"][0]), EQ(q.y_rotation_angle_local, exp["rot_local"][1]),
                     EQ(q.x_rotation_angle_local_2, exp["rot_local"][2]),
                     z3.BoolVal(q.random_basis_local == qlink_1_0.RandomBasis(exp["rb_local"].value))]
        cls_ok = type(q).__name__ == {"keep": "ReqCreateAndKeep", "measure": "ReqMeasureDirectly", "rsp": "ReqRemoteStatePrep"}[spec["tp"]]
        obs.append(Ob("qlink_conversion", z3.And(z3.BoolVal(cls_ok), *conv), dict(site, tp=spec["tp"])))
        return obs

    return body


BELL_NAMES = ["PHI_PLUS", "PSI_PLUS", "PSI_MINUS", "PHI_MINUS"]


def body_results_qlink1(spec):
    """result handles when the link layer answers in qlink-interface 1.0 form: the Bell state a handle reports is the one the response NAMED"""
    kind, role, number = spec["kind"], spec["role"], spec["number"]

    def body(inp):
        conn, sock, ex = mk_conn("generic")
        site = {"kind": kind, "role": role, "wire": "qlink1"}
        creator = role == "create"
        names = [BELL_NAMES[inp.choice(f"bellname{i}", 4)] for i in range(number)]
        outs = [inp.choice(f"out{i}", 2) for i in range(number)]
        try:
            infos = results = None
            if kind == "keep":
                _q, infos = (sock.create_keep_with_info(number=number) if creator else sock.recv_keep_with_info(number=number, expect_phi_plus=False))
                for i in range(number):
                    ex.deliveries.append(ok_k_qlink1(ex, creator=creator, purpose_id=SOCK_ID, remote_node_id=REMOTE_NODE, bell_name=names[i], seq=i, create_id=i, goodness=11 + i))
            else:
                results = sock.create_measure(number=number) if creator else sock.recv_measure(number=number, expect_phi_plus=False)
                for i in range(number):
                    ex.deliveries.append(ok_m_qlink1(ex, creator=creator, purpose_id=SOCK_ID, remote_node_id=REMOTE_NODE, bell_name=names[i], outcome=outs[i], seq=i,
                                                     create_id=i, goodness=11 + i))
            conn.flush()
        except (PathAbort, Infeasible):
            raise
        except Exception as e:  # noqa
            return [Ob("pipeline_raises", False, dict(site, exc=type(e).__name__), info=f"{type(e).__name__}: {str(e)[:300]}")]
        obs = []
        try:
            for i, h in enumerate(infos if infos is not None else results):
                obs.append(Ob("bell_state_named_by_the_response", h.bell_state.name == names[i], dict(site, field="bell_state"),
                              info={"pair": i, "reported": names[i], "handle": h.bell_state.name}))
                obs.append(Ob("result_field", h.generation_duration.value == 11 + i, dict(site, field="generation_duration"), info={"pair": i}))
                if results is not None:
                    obs.append(Ob("result_field", h.raw_measurement_outcome.value == outs[i], dict(site, field="raw_measurement_outcome"), info={"pair": i}))
        except (PathAbort, Infeasible):
            raise
        except Exception as e:  # noqa
            obs.append(Ob("handle_read_raises", False, dict(site, exc=type(e).__name__), info=f"{type(e).__name__}: {str(e)[:200]}"))
        return obs
    return body


def body_results(spec):
    kind, role, number, hw = spec["kind"], spec["role"], spec["number"], spec.get("hw", "generic")

    def body(inp):
        conn, sock, ex = mk_conn(hw)
        site = {"kind": kind, "role": role, "hw": hw}
        creator = role == "create"
        f = {}
        for i in range(number):
            f[i] = {"create_id": inp.int(f"cid{i}"), "seq": inp.int(f"seq{i}"), "goodness": inp.int(f"good{i}"),
                    "goodness_time": inp.int(f"gt{i}"), "bell": inp.int(f"bell{i}", 0, 3), "outcome": inp.bit(f"out{i}"),
                    "basis": inp.int(f"basis{i}", 0, 4)}
        try:
            qubits = infos = results = None
            if kind == "keep":
                if creator:
                    qubits, infos = sock.create_keep_with_info(number=number)
                else:
                    qubits, infos = sock.recv_keep_with_info(number=number, expect_phi_plus=False)
                for i in range(number):
                    ex.deliveries.append(ok_k(ex, creator=creator, purpose_id=SOCK_ID, remote_node_id=REMOTE_NODE, bell_state=f[i]["bell"],
                                              create_id=f[i]["create_id"], seq=f[i]["seq"], goodness=f[i]["goodness"],
                                              goodness_time=f[i]["goodness_time"]))
            elif kind == "rsp_recv":
                qubits, infos = sock.recv_rsp_with_info(number=number, expect_phi_plus=False)
                for i in range(number):
                    ex.deliveries.append(ok_k(ex, creator=False, purpose_id=SOCK_ID, remote_node_id=REMOTE_NODE, bell_state=f[i]["bell"],
                                              create_id=f[i]["create_id"], seq=f[i]["seq"], goodness=f[i]["goodness"],
                                              goodness_time=f[i]["goodness_time"]))
            else:
                if kind == "measure":
                    results = sock.create_measure(number=number) if creator else sock.recv_measure(number=number, expect_phi_plus=False)
                else:
                    results = sock.create_rsp(number=number)
                for i in range(number):
                    ex.deliveries.append(ok_m(ex, creator=creator, purpose_id=SOCK_ID, remote_node_id=REMOTE_NODE, outcome=f[i]["outcome"],
                                              basis=f[i]["basis"], bell_state=f[i]["bell"], create_id=f[i]["create_id"], seq=f[i]["seq"],
                                              goodness=f[i]["goodness"]))
            conn.flush()
        except (PathAbort, Infeasible):
            raise
        except Exception as e:  # noqa
            return [Ob("pipeline_raises", False, dict(site, exc=type(e).__name__), info=f"{type(e).__name__}: {str(e)[:300]}")]
        obs = []
        delivered = ex.delivered
        try:
            if qubits is not None:
                # which pair a qubit handle belongs to is positional: handle i <-> pair i
                for i, q in enumerate(qubits):
                    info = q.entanglement_info
                    resp = delivered[i]
                    names = qlink_compat.LinkLayerOKTypeK._fields
                    for j, nm in enumerate(names):
                        want = _enum_val(resp[j])
                        obs.append(Ob("keep_info_field", EQ(info[j].value, want), dict(site, field=nm), info={"pair": i}))
                    obs.append(Ob("remote_node_name", q.remote_entangled_node == "Bob", dict(site, field="remote_entangled_node")))
                    k = infos[i]
                    obs.append(Ob("keep_result_field", EQ(k.qubit_id.value, resp[2]), dict(site, field="qubit_id"), info={"pair": i}))
                    obs.append(Ob("keep_result_field", EQ(k.remote_node_id.value, REMOTE_NODE), dict(site, field="remote_node_id"), info={"pair": i}))
                    obs.append(Ob("keep_result_field", EQ(k.generation_duration.value, f[i]["goodness"]), dict(site, field="generation_duration"), info={"pair": i}))
                    obs.append(Ob("keep_result_field", EQ(k.raw_bell_state.value, f[i]["bell"]), dict(site, field="raw_bell_state"), info={"pair": i}))
            if results is not None:
                for i, r in enumerate(results):
                    obs.append(Ob("measure_result_field", EQ(r.raw_measurement_outcome.value, f[i]["outcome"]), dict(site, field="raw_measurement_outcome"), info={"pair": i}))
                    obs.append(Ob("measure_result_field", EQ(r.remote_node_id.value, REMOTE_NODE), dict(site, field="remote_node_id"), info={"pair": i}))
                    obs.append(Ob("measure_result_field", EQ(r.generation_duration.value, f[i]["goodness"]), dict(site, field="generation_duration"), info={"pair": i}))
                    obs.append(Ob("measure_result_field", EQ(r.raw_bell_state.value, f[i]["bell"]), dict(site, field="raw_bell_state"), info={"pair": i}))
        except (PathAbort, Infeasible):
            raise
        except Exception as e:  # noqa
            obs.append(Ob("handle_read_raises", False, dict(site, exc=type(e).__name__), info=f"{type(e).__name__}: {str(e)[:200]}"))
        return obs

    return body


def body_of(spec):
    if spec["dir"] == "results_qlink1":
        return body_results_qlink1(spec)
    return body_request(spec) if spec["dir"] == "request" else body_results(spec)


def work(spec):
    ex = Explorer(max_paths=20000, budget_s=300, max_depth=3000)
    ex.run(body_of(spec))
    res = worker_result(ex, samples=[dict(spec, paths=ex.stats.paths)])
    for c in res["cexs"]:
        c["info"] = {"spec": spec, "detail": c["info"]}
    return res


def replay(harness, cex):
    spec = cex["info"]["spec"]
    res = run_concrete(body_of(spec), cex["values"])
    bad = [(lab, site.get("field"), info) for lab, ok, site, info in res if not ok and lab == cex["label"] and site.get("field") == cex["site"].get("field")]
    allbad = [(lab, site.get("field"), info) for lab, ok, site, info in res if not ok]
    return bool(bad), f"concrete run: failing {allbad}; scenario {spec} inputs {cex['values']}"


def main(tier, seed):
    rep = Report(PID, tier, seed,
                 "bounded symbolic execution of the real EPRSocket API, Builder, assembler and Executor: request parameters (time limit, "
                 "rotation triples symbolic; enums enumerated) are compared with the request object that reaches the network stack and "
                 "with its qlink-interface conversion; response fields are symbolic and compared with the host-side result handles")
    maxn = 3 if tier == "thorough" else 2
    specs = []
    for number in range(1, maxn + 1):
        specs += [{"dir": "request", "entry": "create_keep", "tp": "keep", "number": number},
                  {"dir": "request", "entry": "create_keep_with_info", "tp": "keep", "number": number},
                  {"dir": "request", "entry": "create", "tp": "keep", "number": number},
                  {"dir": "request", "entry": "create_context", "tp": "keep", "number": number}]
        for named, vary, sym in ((False, "none", "local"), (False, "none", "remote"), (True, "time", "-"), (True, "bases", "-"), (True, "rb", "-")):
            specs += [{"dir": "request", "entry": "create_measure", "tp": "measure", "number": number, "named": named, "vary": vary, "sym": sym},
                      {"dir": "request", "entry": "create", "tp": "measure", "number": number, "named": named, "vary": vary, "sym": sym}]
            if sym != "remote":
                specs.append({"dir": "request", "entry": "create_rsp", "tp": "rsp", "number": number, "named": named, "vary": vary, "sym": sym})
        if tier == "thorough" and number == 1:
            specs += [{"dir": "request", "entry": "create_measure", "tp": "measure", "number": 1, "named": True, "vary": "all"}]
    for number in range(1, maxn + 1):
        for role in ("create", "recv"):
            specs.append({"dir": "results", "kind": "keep", "role": role, "number": number})
            specs.append({"dir": "results", "kind": "measure", "role": role, "number": number})
        specs.append({"dir": "results", "kind": "rsp_recv", "role": "recv", "number": number})
        specs.append({"dir": "results", "kind": "rsp_create", "role": "create", "number": number})
    for role in ("create", "recv"):
        specs.append({"dir": "results_qlink1", "kind": "keep", "role": role, "number": 2})
        specs.append({"dir": "results_qlink1", "kind": "measure", "role": role, "number": 2})
    specs.append({"dir": "results", "kind": "keep", "role": "create", "number": 2, "hw": "nv"})
    specs.append({"dir": "results", "kind": "keep", "role": "recv", "number": 2, "hw": "nv"})
    rep.bounds = [f"request direction: create_keep, create_keep_with_info, create(tp=K/M), create_context, create_measure, create_rsp; pairs 1..{maxn}; "
                  "max_time symbolic 0..2^31-1, every TimeUnit; rotation triples symbolic 0..31 (one triple at a time, the other a fixed non-zero triple) or every pair of the six named bases; every pair of RandomBasis members / unset "
                  "(each enum group enumerated exhaustively in its own scenario with the other groups fixed to a non-default member; thorough adds the full product once)",
                  f"result direction: keep (create / recv, also NV config), measure (create / recv), rsp (create / recv); pairs 1..{maxn}; "
                  "create id, sequence number, goodness, goodness time, Bell state, outcome and basis symbolic"]
    rep.outside = ["more pairs than the bound", "error responses", "minimum_fidelity / priority / atomic / consecutive (no SDK parameter reaches them)"]
    rep.stubs = ["RecStack + in-order scripted delivery at the executor's wait points (vf/netharness.py)"]
    for r in pmap(work, specs):
        rep.merge_worker("boundary", r)
    rep.section("boundary", None, scenarios=len(specs))
    ex = Explorer(max_paths=3000, budget_s=90)

    def twin(inp):
        obs = body_request({"dir": "request", "entry": "create_keep", "tp": "keep", "number": 1})(inp)
        return [Ob(o.label, z3.And(o.expr, z3.BoolVal(o.site.get("field") != "max_time")), o.site) for o in obs]
    ex.run(twin)
    rep.witness("request field with falsified oracle", any(c.site.get("field") == "max_time" for c in ex.cexs))

    def one():
        Explorer(max_paths=4, budget_s=30).run(body_request({"dir": "request", "entry": "create_measure", "tp": "measure", "number": 1, "named": False, "vary": "none", "sym": "local"}))
        Explorer(max_paths=4, budget_s=30).run(body_results({"dir": "results", "kind": "keep", "role": "recv", "number": 2}))
    rep.functions_encoded |= trace_functions(one)
    return rep.finish(replay)
