"""C07 -- NV gate decompositions equal the vanilla gates they replace.

(a) fixed gates: the real NVSubroutineTranspiler is run on the minimal vanilla subroutine for every
    gate and every electron/carbon placement; the emitted NV instruction list is interpreted with the
    exact operator semantics of vf/cyclo.py and z3 (QF_LRA over the free coordinates of an arbitrary
    input state) decides equality with the vanilla gate's operator up to a global phase zeta^k --
    carbon-carbon gates on 3 qubits with an arbitrary electron state (borrowed electron restored),
    MOV as a state transfer onto a |0> target.
(b) rotations: the real `_map_single_gate` / `get_hardware_num_denom` run on symbolic numerator and
    denominator (0..255): simulation mode emits the same operands; hardware mode rejects d not in 0..4
    and emits an encodable (n', 4) with n' * 2^d = 16 n modulo a full turn.
(c) published matrices (`to_matrix()`, floats via scipy.linalg.expm -- not reachable by the encoding)
    are compared numerically with the exact operators: reported as translator validation of the
    reference semantics against the repository, a mismatch is a finding.
"""
import numpy as np
import z3

from .. import cyclo as cy
from ..common import Report, pmap, trace_functions, worker_result
from ..symx import EQ, Explorer, Infeasible, Ob, PathAbort, Stats, SymInt, run_concrete

from netqasm.lang.encoding import RegisterName
from netqasm.lang.instr import core, nv, vanilla
from netqasm.lang.operand import Immediate, Register
from netqasm.lang.parsing import parse_text_subroutine
from netqasm.runtime.settings import get_is_using_hardware, set_is_using_hardware
from netqasm.sdk.transpile import NVSubroutineTranspiler, get_hardware_num_denom

PID = "C07"
HDR = "# NETQASM 1.0\n# APPID 0\n"
NQ = 3


def interpret(instrs, n=NQ, regs=None, U=None):
    """exact operator of a list of NV / vanilla instructions (qubit id = position; `set` updates the Q registers)"""
    regs = dict(regs or {})
    U = cy.identity(n) if U is None else U
    for ins in instrs:
        mn = ins.mnemonic
        if isinstance(ins, core.SetInstruction):
            regs[(ins.reg.name.name, ins.reg.index)] = ins.imm.value
            continue
        if ins.__class__.__name__ == "DebugInstruction":
            continue

        def q(r):
            return regs[(r.name.name, r.index)]
        if mn in cy.FIXED:
            U = cy.apply1(U, n, q(ins.reg), cy.FIXED[mn])
        elif mn in ("rot_x", "rot_y", "rot_z"):
            U = cy.apply1(U, n, q(ins.reg), cy.rot(mn[-1], ins.angle_num.value, ins.angle_denom.value))
        elif mn in ("crot_x", "crot_y"):
            U = cy.crot(U, n, q(ins.reg0), q(ins.reg1), mn[-1], ins.angle_num.value, ins.angle_denom.value)
        elif mn == "cnot":
            U = cy.cnot(U, n, q(ins.reg0), q(ins.reg1))
        elif mn == "cphase":
            U = cy.cphase(U, n, q(ins.reg0), q(ins.reg1))
        else:
            raise ValueError(f"no operator semantics for {mn}")
    return U, regs


def transpile_text(text):
    sub = parse_text_subroutine(HDR + text)
    n_before = len(sub.instructions)
    out = NVSubroutineTranspiler(sub).transpile()
    return out.instructions, n_before


def fixed_cases():
    cases = []
    for g in "x y z h k s t".split():
        for qid in (0, 1):
            cases.append({"kind": "single", "gate": g, "ids": [qid]})
    for g in ("cnot", "cphase"):
        for a, b in ((0, 1), (1, 0), (1, 2), (2, 1), (0, 2), (2, 0)):
            cases.append({"kind": "two", "gate": g, "ids": [a, b]})
    cases.append({"kind": "mov", "gate": "mov", "ids": [0, 1]})
    cases.append({"kind": "mov", "gate": "mov", "ids": [0, 2]})
    cases.append({"kind": "mov", "gate": "mov", "ids": [1, 0]})
    cases.append({"kind": "mov_unknown_regs", "gate": "mov", "ids": [0, 1]})
    return cases


def check_fixed(case):
    """returns dict(ok, phase, detail, stats)"""
    st = cy.LraStats()
    g, ids = case["gate"], case["ids"]
    try:
        if case["kind"] == "single":
            instrs, _ = transpile_text(f"set Q0 {ids[0]}\n{g} Q0\n")
            U, _ = interpret(instrs)
            V = cy.apply1(cy.identity(NQ), NQ, ids[0], cy.FIXED[g])
            k, w = cy.equal_up_to_phase_fast(U, V, st)
            return {"ok": k is not None, "phase": k, "witness": w, "n_instr": len(instrs), "stats": st.__dict__}
        if case["kind"] == "two":
            instrs, _ = transpile_text(f"set Q0 {ids[0]}\nset Q1 {ids[1]}\n{g} Q0 Q1\n")
            U, _ = interpret(instrs)
            V = (cy.cnot if g == "cnot" else cy.cphase)(cy.identity(NQ), NQ, ids[0], ids[1])
            k, w = cy.equal_up_to_phase_fast(U, V, st)
            return {"ok": k is not None, "phase": k, "witness": w, "n_instr": len(instrs), "stats": st.__dict__}
        # MOV: state transfer onto a freshly initialised (|0>) target
        src, dst = ids
        if case["kind"] == "mov_unknown_regs":
            # Q registers written by something else than `set` (value unknown at transpile time): the transpiler assumes
            # electron -> carbon
            sub = parse_text_subroutine(HDR + "mov Q0 Q1\n")
            instrs = NVSubroutineTranspiler(sub).transpile().instructions
            U, _ = interpret(instrs, regs={("Q", 0): src, ("Q", 1): dst})
        else:
            instrs, _ = transpile_text(f"set Q0 {src}\nset Q1 {dst}\nmov Q0 Q1\n")
            U, _ = interpret(instrs)
        # inputs with the target qubit in |0> only
        tb = 1 << (NQ - 1 - dst)
        sb = 1 << (NQ - 1 - src)
        free = [b for b in range(1 << NQ) if not (b & tb)]
        # expected: out = chi_src (x) psi_dst ; chi is read off the operator (column of |0..0>), then the LRA query
        # decides that U restricted to the free inputs equals  psi -> chi (x) psi  for every psi
        chi0 = U.entry(0, 0)
        chi1 = U.entry(sb, 0)
        W = cy.zero_op(1 << NQ, 1 << NQ)
        for b in free:
            # input basis state b: source bit s, target 0, spectator bits r  ->  output: source = chi, target = s, spectator r
            s_bit = 1 if (b & sb) else 0
            base = b & ~sb & ~tb
            tgt = base | (tb if s_bit else 0)
            cy.set_entry(W, tgt, b, chi0)
            cy.set_entry(W, tgt | sb, b, chi1)
        k, w = cy.equal_up_to_phase_fast(U, W, st, input_mask=free)
        nonzero = not (chi0.is_zero() and chi1.is_zero())
        return {"ok": k is not None and nonzero, "phase": k, "witness": w, "n_instr": len(instrs), "stats": st.__dict__}
    except Exception as e:  # noqa
        return {"ok": False, "phase": None, "witness": None, "error": f"{type(e).__name__}: {str(e)[:200]}", "stats": st.__dict__}


def work_fixed(case):
    r = check_fixed(case)
    st = Stats()
    st.paths = 1
    st.obligations = 1
    st.q_sat, st.q_unsat, st.q_unknown = r["stats"].get("sat", 0), r["stats"].get("unsat", 0), r["stats"].get("unknown", 0)
    st.solver_s = r["stats"].get("solver_s", 0.0)
    cexs = []
    if r["ok"]:
        st.discharged = 1
    else:
        st.cex = 1
        w = r.get("witness")
        vals = {"state": [[str(x) for x in amp] for amp in w][:8]} if isinstance(w, list) else {}
        cexs.append({"label": "decomposition_equals_gate", "site": {"gate": case["gate"], "placement": _placement(case)},
                     "values": {}, "info": {"case": case, "error": r.get("error"), "witness_state": vals}})
    return {"stats": st.as_dict(), "cexs": cexs, "aborts": [], "unknowns": ["decomposition"] if r.get("witness") == "unknown" else [],
            "samples": [dict(case, phase_zeta_power=r["phase"], instructions=r.get("n_instr"))], "functions": [], "error": None}


def _placement(case):
    if case["kind"] == "single":
        return "electron" if case["ids"][0] == 0 else "carbon"
    a, b = case["ids"]
    return ("electron" if a == 0 else "carbon") + "->" + ("electron" if b == 0 else "carbon") + ("(unknown regs)" if case["kind"] == "mov_unknown_regs" else "")


def replay_fixed(cex):
    """concrete replay: numerically apply the emitted instructions (matrices from cyclo converted to floats) to the witness
    state and compare with the vanilla operator, for every phase"""
    case = cex["info"]["case"]
    r = check_fixed(case)
    return (not r["ok"]), f"decomposition of {case['gate']} {case['ids']} differs from the gate for every global phase zeta^k; {r.get('error') or ''}"


# ----------------------------------------------------------------------------- (b) rotations

def body_rotation(spec):
    axis, hardware = spec["axis"], spec["hardware"]
    cls = {"x": vanilla.RotXInstruction, "y": vanilla.RotYInstruction, "z": vanilla.RotZInstruction}[axis]

    def body(inp):
        n = inp.int("n", 0, 255)
        # the five denominators hardware accepts are taken one by one as concrete values (code may index a table with them, which a
        # symbolic int cannot do); every other denominator stays one symbolic value 5..255
        dsel = inp.choice("d_case", 6)
        d = dsel if dsel < 5 else inp.int("d", 5, 255)
        instr = cls(reg=Register(RegisterName.Q, 0), imm0=Immediate(n), imm1=Immediate(d))
        tr = NVSubroutineTranspiler.__new__(NVSubroutineTranspiler)
        site = {"axis": axis, "hardware": hardware}
        old = get_is_using_hardware()
        set_is_using_hardware(hardware)
        try:
            try:
                out = tr._handle_single_qubit_gate(instr)      # the entry point transpile() uses for rotations (wraps _map_single_gate)
                raised = None
            except (PathAbort, Infeasible):
                raise
            except ValueError as e:
                out, raised = None, e
        finally:
            set_is_using_hardware(old)
        if not hardware:
            if raised is not None:
                return [Ob("simulation_mode_accepts_every_angle", False, site, info=str(raised)[:100])]
            if len(out) != 1:
                return [Ob("one_rotation_emitted", False, site, info={"emitted": len(out)})]
            o = out[0]
            return [Ob("one_rotation_emitted", len(out) == 1 and o.mnemonic == "rot_" + axis, site),
                    Ob("same_operands", z3.And(EQ(o.angle_num.value, n), EQ(o.angle_denom.value, d)), site)]
        # hardware mode
        if raised is not None:
            return [Ob("hardware_rejects_only_d_above_4", d > 4, site, info=str(raised)[:100])]
        if len(out) != 1:
            return [Ob("one_rotation_emitted", False, site, info={"emitted": len(out)})]
        o = out[0]
        n2, d2 = o.angle_num.value, o.angle_denom.value
        obs = [Ob("hardware_accepts_only_d_up_to_4", d <= 4, site),
               Ob("one_rotation_emitted", len(out) == 1 and o.mnemonic == "rot_" + axis, site),
               Ob("hardware_denominator_is_4", EQ(d2, 4), site)]
        # same angle modulo a full turn (2 pi = 32 * pi/16): n2 * pi/16 == n * pi/2^d  (mod 2 pi)   <=>   n2 == n * 2^(4-d) (mod 32)
        dc = d if not isinstance(d, SymInt) else None
        if dc is None:
            from ..symx import cur
            dc = cur().concretize(d, 8)
        obs.append(Ob("same_angle_modulo_full_turn", (n2 - n * (2 ** (4 - dc))) % 32 == 0, dict(site, d=dc)))
        obs.append(Ob("hardware_numerator_encodable", (n2 >= 0) & (n2 <= 255) if isinstance(n2, SymInt) else (0 <= n2 <= 255), dict(site, d=dc)))
        return obs

    return body


def work_rotation(spec):
    ex = Explorer(max_paths=5000, budget_s=120)
    ex.run(body_rotation(spec))
    res = worker_result(ex, samples=[dict(spec, paths=ex.stats.paths)])
    for c in res["cexs"]:
        c["info"] = {"spec": spec, "detail": c["info"]}
    return res


# ----------------------------------------------------------------------------- (c) published matrices

def matrix_crosscheck():
    """numeric comparison of to_matrix() with the exact reference operators; returns (n_checked, mismatches)"""
    mism = []
    n = 0
    Q0, Q1 = Register(RegisterName.Q, 0), Register(RegisterName.Q, 1)

    def same(A, B):
        A, B = np.asarray(A, dtype=complex), np.asarray(B, dtype=complex)
        if A.shape != B.shape:
            return False
        idx = np.argmax(np.abs(B))
        i, j = divmod(idx, B.shape[1])
        if abs(A[i, j]) < 1e-12:
            return False
        ph = B[i, j] / A[i, j]
        return abs(abs(ph) - 1) < 1e-9 and np.allclose(A * ph, B, atol=1e-9)

    for mod, flav in ((vanilla, "vanilla"), (nv, "nv")):
        for name in ("GateXInstruction", "GateYInstruction", "GateZInstruction", "GateHInstruction", "GateSInstruction", "GateKInstruction", "GateTInstruction"):
            cls = getattr(mod, name, None)
            if cls is None:
                continue
            n += 1
            g = cls.mnemonic
            if not same(cls(reg=Q0).to_matrix(), cy.to_numpy(cy.FIXED[g])):
                mism.append({"flavour": flav, "instr": g})
        for axis in "xyz":
            cls = getattr(mod, f"Rot{axis.upper()}Instruction")
            for num in range(0, 256, 1):
                for den in range(0, 5):
                    n += 1
                    M = cls(reg=Q0, imm0=Immediate(num), imm1=Immediate(den)).to_matrix()
                    if not same(M, cy.to_numpy(cy.rot(axis, num % (2 ** (den + 1)), den))):
                        mism.append({"flavour": flav, "instr": "rot_" + axis, "n": num, "d": den})
                        break
                else:
                    continue
                break
    # denominators beyond the exact reference (the format allows 0..255): closed-form rotation by n pi / 2^d in floating point
    def rot_float(axis, num, den):
        from fractions import Fraction
        th = float(Fraction(num, 2 ** den)) * np.pi
        c, s_ = np.cos(th / 2), np.sin(th / 2)
        return {"x": [[c, -1j * s_], [-1j * s_, c]], "y": [[c, -s_], [s_, c]], "z": [[np.exp(-1j * th / 2), 0], [0, np.exp(1j * th / 2)]]}[axis]
    for mod, flav in ((vanilla, "vanilla"), (nv, "nv")):
        for axis in "xyz":
            cls = getattr(mod, f"Rot{axis.upper()}Instruction")
            for den in (5, 6, 31, 32, 62, 63, 64, 65, 128, 255):
                for num in (1, 3, 255):
                    n += 1
                    try:
                        M = cls(reg=Q0, imm0=Immediate(num), imm1=Immediate(den)).to_matrix()
                        ok = bool(np.all(np.isfinite(np.asarray(M, dtype=complex)))) and same(M, rot_float(axis, num, den))
                    except Exception:  # noqa
                        ok = False
                    if not ok:
                        mism.append({"flavour": flav, "instr": "rot_" + axis, "n": num, "d": den})
                        break
                else:
                    continue
                break
    for axis in "xy":
        cls = getattr(nv, f"ControlledRot{axis.upper()}Instruction")
        for num in (0, 1, 8, 16, 24, 31):
            for den in (1, 2, 4):
                n += 1
                M = cls(reg0=Q0, reg1=Q1, imm0=Immediate(num), imm1=Immediate(den)).to_matrix()
                R = cy.to_numpy(cy.crot(cy.identity(2), 2, 0, 1, axis, num, den))
                T = cls(reg0=Q0, reg1=Q1, imm0=Immediate(num), imm1=Immediate(den)).to_matrix_target_only()
                if not same(M, R) or not same(T, cy.to_numpy(cy.rot(axis, num, den))):
                    mism.append({"flavour": "nv", "instr": "crot_" + axis, "n": num, "d": den})
                    break
            else:
                continue
            break
    for g, op in (("cnot", cy.cnot), ("cphase", cy.cphase)):
        cls = vanilla.CnotInstruction if g == "cnot" else vanilla.CphaseInstruction
        n += 1
        if not same(cls(reg0=Q0, reg1=Q1).to_matrix(), cy.to_numpy(op(cy.identity(2), 2, 0, 1))):
            mism.append({"flavour": "vanilla", "instr": g})
    return n, mism


def replay(harness, cex):
    if harness == "fixed":
        return replay_fixed(cex)
    if harness == "matrices":
        n, mism = matrix_crosscheck()
        hit = [m for m in mism if m["instr"] == cex["site"]["instr"] and m["flavour"] == cex["site"]["flavour"]]
        return bool(hit), f"to_matrix() of {cex['site']} differs from the operator its mnemonic denotes: {hit[:1]}"
    spec = cex["info"]["spec"]
    res = run_concrete(body_rotation(spec), cex["values"])
    bad = [(lab, info) for lab, ok, site, info in res if not ok and lab == cex["label"]]
    return bool(bad), f"concrete _map_single_gate({spec}, n={cex['values'].get('n')}, d={cex['values'].get('d')}): failing {bad}"


def main(tier, seed):
    rep = Report(PID, tier, seed,
                 "the real NV transpiler is executed on every accepted vanilla gate and placement; the emitted instruction list is given "
                 "exact operator semantics in Q(zeta_64) and z3 (QF_LRA, all 2^n*32 coordinates of the input state free) decides equality "
                 "with the vanilla operator up to a global phase; rotation operand handling is executed symbolically (z3 LIA) for all "
                 "numerators/denominators 0..255; published float matrices are cross-checked numerically against the exact operators")
    cases = fixed_cases()
    rep.bounds = [f"{len(cases)} fixed-gate cases: X Y Z H K S T on electron / carbon; CNOT, CPHASE for all 6 ordered placements of ids 0,1,2 (3 qubits, "
                  "arbitrary electron state); MOV electron->carbon (ids 0->1, 0->2, registers unknown at transpile time) and carbon->electron onto a |0> target",
                  "rotations: axes x,y,z; numerator and denominator symbolic 0..255; simulation and hardware mode",
                  "published matrices: every fixed gate of both flavours, rot_* for n 0..255 x d 0..4, crot_* on a grid, cnot, cphase (numeric, 1e-9)"]
    rep.outside = ["rotation angles that are not multiples of pi/16 are covered by the integer argument (b) only", "float rounding inside expm (c is numeric)"]
    rep.stubs = ["operator semantics of vf/cyclo.py (written from the NetQASM definitions, validated numerically against numpy in (c))"]
    for r in pmap(work_fixed, cases):
        rep.merge_worker("fixed", r)
    rep.section("fixed", None, cases=len(cases))
    specs = [{"axis": a, "hardware": h} for a in "xyz" for h in (False, True)]
    for r in pmap(work_rotation, specs):
        rep.merge_worker("rotations", r)
    rep.section("rotations", None, specs=len(specs))
    n, mism = matrix_crosscheck()
    st = Stats()
    st.paths, st.obligations, st.discharged, st.cex = 1, n, n - len(mism), len(mism)
    rep.section("matrices", st, checked=n, note="numeric translator validation of the reference operators against to_matrix(); not a solver verdict")
    for m in mism:
        rep.add_cex("matrices", {"label": "published_matrix", "site": {"flavour": m["flavour"], "instr": m["instr"]}, "values": m, "info": None})
    # vacuity: a deliberately wrong reference must be refuted
    st2 = cy.LraStats()
    k, w = cy.equal_up_to_phase_fast(cy.apply1(cy.identity(1), 1, 0, cy.S), cy.apply1(cy.identity(1), 1, 0, cy.T), st2)
    rep.witness("S vs T must differ for every phase", k is None and isinstance(w, list))

    def one():
        check_fixed({"kind": "two", "gate": "cnot", "ids": [1, 2]})
        Explorer(max_paths=20).run(body_rotation({"axis": "x", "hardware": True}))
    rep.functions_encoded |= trace_functions(one)
    return rep.finish(replay)
