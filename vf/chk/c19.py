"""C19 -- float angles are approximated within tolerance by encodable rotations.

The real `get_angle_spec_from_float` is executed on a symbolic real angle and a symbolic real tolerance
(z3 Reals; the binary64 operations it uses are modelled by the stubs of vf/symreal.py, whose contracts
are listed in the evidence).  Every path (= sequence of exponents and of simplification steps) ends with
the obligations: every (n, d) has 1 <= n <= 255 and 0 <= d <= 255, and |sum n_i / 2^d_i - r/pi| <= tol
where r = angle mod 2 pi.  The loop is unrolled until the solver refutes `rest > tol` (unwinding bound:
8 iterations).  The builder path `Qubit.rot_X/Y/Z(angle=...)` is then checked to emit one rotation per
step, same axis, same order.
"""
import os
from fractions import Fraction

import z3

from .. import symreal
from ..common import ModuleStateGuard, Report, pmap, trace_functions, worker_result
from ..pipeline import PipeConnection, TraceExecutor
from ..symreal import PI_F, R, SymReal
from ..symx import Explorer, Infeasible, Ob, PathAbort, SymInt, cur, run_concrete

import netqasm.sdk.toolbox.state_prep as sp
from netqasm.sdk.qubit import Qubit

PID = "C19"
T_SMALL = Fraction(255, 2 ** 32)       # below this tolerance steps with exponent >= 32 would be needed
MAX_STEPS = 8


_STATE = ModuleStateGuard(sp)       # (sp is imported above) module-level state of state_prep is reset before every path / replay


def make_body(spec, falsify=False):
    tol_lo, tol_hi, d0 = Fraction(spec["tol_lo"]), Fraction(spec["tol_hi"]), spec["d0"]
    nomod = bool(spec.get("nomod"))     # fallback exploration for code that does not reduce the angle with the float modulo

    def body(inp):
        _STATE.reset()
        ex = cur()
        ex.nfresh = 0          # names of the fresh floor / remainder terms must be the same on every re-execution
        ex.nlog2 = 0
        angle = z3.Real("angle")
        tol = z3.Real("tol")
        inp.vars["angle"] = angle
        inp.vars["tol"] = tol
        ex.assume_expr(tol >= R(Fraction(spec["tol_first_lo"]) if spec.get("tol_first_lo") else tol_lo))
        ex.assume_expr(tol <= R(tol_hi))
        site = {"d0": "none" if d0 is None else "any"}
        if nomod:
            site["nomod"] = True
        state = {}

        def hook(r):
            if "r" in state:
                # second call: the same angle -> the same remainder; a nearby angle (no wrap-around) -> the remainder moves with it
                ex.assume_expr(r == state["r"] + state.get("delta", 0))
                state["r2"] = r
                return
            state["r"] = r
            if nomod:
                raise Infeasible()          # the reduction by `%` is what every other spec explores
            rest = r / R(PI_F)
            if d0 is None:
                ex.assume_expr(rest <= tol)                       # no step at all
            else:
                ex.assume_expr(rest > tol)
                p = Fraction(2) ** d0
                # first exponent d0 (up to the stub's 2^-50 slack the partition overlaps, which is harmless)
                ex.assume_expr(rest * R(p) <= R(Fraction(255) * (1 + symreal.EPS)))
                ex.assume_expr(R(Fraction(255) * (1 - symreal.EPS)) < rest * R(2 * p))
        d1 = spec.get("d1", "any")

        def log2_hook(k, cond_for):
            # partition of the work by the SECOND exponent: "any" = no pinning; "none" = only paths with a single step;
            # an integer = only paths whose second exponent is that value
            if "r" not in state and not nomod:
                raise Infeasible()          # no modulo seen: left to the `nomod` spec
            if k != 2 or d1 == "any":
                return None
            if d1 == "none":
                raise Infeasible()
            ex.assume(cond_for(d1))
            return d1
        ex.nlog2 = 0
        symreal.MOD_HOOK = hook
        symreal.LOG2_HOOK = log2_hook
        restore = symreal.install(sp)
        try:
            try:
                a_sym = SymReal(angle)
                nds = sp.get_angle_spec_from_float(a_sym, SymReal(tol))
                if spec.get("twice") == "near":
                    # a second request for a NEARBY angle (closer than 1e-3, further than the tolerance) with the same tolerance
                    delta = z3.Real("delta")
                    inp.vars["delta"] = delta
                    ex.assume_expr(delta >= R(Fraction(4, 10000)))
                    ex.assume_expr(delta <= R(Fraction(9, 10000)))
                    ex.assume_expr(state["r"] + delta <= R(2 * PI_F))
                    state["delta"] = delta
                    nds = sp.get_angle_spec_from_float(SymReal(angle + delta), SymReal(tol))
                    if "r2" in state:
                        state["r"] = state["r2"]
                elif spec.get("twice"):
                    # a second request for the same angle with a tighter tolerance (state kept between calls must not leak the
                    # coarser answer); the obligations below are then about this second answer
                    tol2 = z3.Real("tol2")
                    inp.vars["tol2"] = tol2
                    ex.assume_expr(tol2 >= R(tol_lo))
                    ex.assume_expr(tol2 <= tol)
                    nds = sp.get_angle_spec_from_float(a_sym, SymReal(tol2))
                    tol = tol2
                raised = None
            except (PathAbort, Infeasible):
                raise
            except Exception as e:  # noqa
                nds, raised = None, e
        finally:
            restore()
            symreal.MOD_HOOK = None
            symreal.LOG2_HOOK = None
        if getattr(ex, "nfresh", 0) > 6 * MAX_STEPS:  # (before the residual terms below are added)
            raise PathAbort("unwinding bound exceeded")
        if spec.get("twice"):
            site["twice"] = spec["twice"]
        if isinstance(d1, int) and ex.nlog2 < 2:
            return []          # single-step paths belong to the "none" partition
        if raised is not None:
            return [Ob("no_exception", False, dict(site, exc=type(raised).__name__), info=str(raised)[:120])]
        if "r" not in state:
            if not nomod:
                raise Infeasible()
            # the code never took `angle % 2 pi`: r is DEFINED here as the mathematical remainder, for angles within a few turns
            kk = z3.Int("turns")
            inp.vars["turns"] = kk
            rr_ = z3.Real("r_true")
            inp.vars["r_true"] = rr_
            ex.assume_expr(angle >= R(-6 * PI_F))
            ex.assume_expr(angle <= R(8 * PI_F))
            ex.assume_expr(angle == rr_ + R(2 * PI_F) * z3.ToReal(kk))
            ex.assume_expr(rr_ >= 0)
            ex.assume_expr(rr_ < R(2 * PI_F))
            state["r"] = rr_
        r = state["r"]
        obs = []
        total = z3.RealVal(0)
        dropped_possible = False
        for i, (n, d) in enumerate(nds):
            ne = n.e if isinstance(n, SymInt) else z3.IntVal(int(n))
            if isinstance(d, SymInt):
                raise PathAbort("symbolic exponent")
            obs.append(Ob("numerator_encodable", z3.And(ne >= 1, ne <= 255), site, info={"step": i}))
            obs.append(Ob("exponent_encodable", 0 <= d <= 255, dict(site, d_negative=d < 0), info={"step": i, "d": d}))
            total = total + z3.ToReal(ne) / R(Fraction(2) ** d)
        err = r / R(PI_F) - total
        within = z3.And(err <= tol, err >= -tol)
        if falsify:
            within = z3.And(within, tol < R(tol_lo))
        # the same clause with twice the tolerance: implied by the property; its counterexamples sit well inside the violating region,
        # so they replay with floats even when the model of the exact clause lies on the boundary err == tol
        obs.append(Ob("within_twice_tolerance", z3.Implies(tol >= R(T_SMALL), z3.And(err <= 2 * tol, err >= -2 * tol)), dict(site, regime="tol>=255/2^32")))
        obs.append(Ob("within_tolerance", z3.Implies(tol >= R(T_SMALL), within), dict(site, regime="tol>=255/2^32")))
        obs.append(Ob("within_tolerance", z3.Implies(tol < R(T_SMALL), within), dict(site, regime="tol<255/2^32")))
        # In the regime of the recorded finding (steps with exponent >= 32 are dropped) the tolerance clause is undecidable from the
        # outside, but the unchanged code still guarantees this much: what is missing is exactly the greedy continuation from the
        # residual, and its first step is one the format cannot hold (exponent >= 32 after removing the factors of two of n).
        # Lenient at band boundaries (any exponent D the stub contract allows may justify the drop), so it cannot alarm falsely.
        eps = symreal.EPS
        just = [err * R(Fraction(2) ** 39) <= R(Fraction(255) * (1 + eps))]
        for D in range(32, 39):
            ex.nfresh += 1
            nD = z3.Int(f"n_res{D}")
            inp.vars[f"n_res{D}"] = nD
            ex.assume_expr(z3.ToReal(nD) <= err * R(Fraction(2) ** D))
            ex.assume_expr(err * R(Fraction(2) ** D) < z3.ToReal(nD) + 1)
            band = z3.And(err * R(Fraction(2) ** D) <= R(Fraction(255) * (1 + eps)), R(Fraction(255) * (1 - eps)) < err * R(Fraction(2) ** (D + 1)))
            just.append(z3.And(band, nD % (2 ** (D - 31)) != 0))
        obs.append(Ob("drops_only_unencodable_steps", z3.Implies(tol < R(T_SMALL), z3.Or(within, z3.And(err > tol, z3.Or(*just)))),
                      dict(site, regime="tol<255/2^32")))
        obs.append(Ob("terminates_within_unwinding", len(nds) <= MAX_STEPS, site, info={"steps": len(nds)}))
        return obs

    return body


def body_builder(spec):
    """one rotation instruction per step, same axis, same order (steps symbolic: the step list is stubbed in)"""
    axis = spec["axis"]

    def body(inp):
        k = inp.choice("nsteps", 4)
        steps = [(inp.int(f"n{i}", 1, 255), inp.int(f"d{i}", 0, 31)) for i in range(k)]
        ex = TraceExecutor("ctrl")
        conn = PipeConnection("app", executor=ex)
        import netqasm.sdk.builder as B
        old = B.get_angle_spec_from_float
        asked = []

        def stub(angle, tol=1e-4):
            asked.append(tol)
            return list(steps)
        B.get_angle_spec_from_float = stub
        try:
            q = Qubit(conn)
            getattr(q, "rot_" + axis)(angle=1.0)
            conn.flush()
        finally:
            B.get_angle_spec_from_float = old
        got = [t for t in ex.trace if t[0].startswith("rot_")]
        from ..symx import EQ
        ok = z3.BoolVal(len(got) == k)
        if len(got) == k:
            ok = z3.And(*[z3.And(z3.BoolVal(g[0] == "rot_" + axis.lower()), EQ(g[2], s[0]), EQ(g[3], s[1])) for g, s in zip(got, steps)]) if k else z3.BoolVal(True)
        return [Ob("one_rotation_per_step_same_axis_same_order", ok, {"axis": axis}, info={"steps": k, "emitted": len(got)}),
                # the builder may not ask for a coarser approximation than the documented 1e-4 (in units of pi)
                Ob("builder_asks_for_documented_tolerance", len(asked) == 1 and asked[0] <= 1e-4, {"axis": axis}, info={"tolerances_requested": [repr(t) for t in asked]})]
    return body


def body_builder_two(spec):
    """two float-angle rotations on one connection (second angle NEAR the first, not equal to it): the decomposition is requested once
    per rotation, for exactly that rotation's angle, and each rotation emits its own steps (state kept in the builder between rotations,
    e.g. a cache keyed by a rounded angle, must not hand the first angle's steps to the second)"""
    axis = spec["axis"]
    a1, a2 = spec["angles"]

    def body(inp):
        k1 = inp.choice("nsteps1", 3)
        k2 = 1 + inp.choice("nsteps2", 2)
        steps1 = [(inp.int(f"n{i}", 1, 255), inp.int(f"d{i}", 0, 31)) for i in range(k1)]
        steps2 = [(inp.int(f"m{i}", 1, 255), inp.int(f"e{i}", 0, 31)) for i in range(k2)]
        ex = TraceExecutor("ctrl")
        conn = PipeConnection("app", executor=ex)
        import netqasm.sdk.builder as B
        old = B.get_angle_spec_from_float
        asked = []

        def stub(angle, tol=1e-4):
            asked.append(float(angle))
            return list(steps1 if len(asked) == 1 else steps2)
        B.get_angle_spec_from_float = stub
        try:
            q = Qubit(conn)
            getattr(q, "rot_" + axis)(angle=a1)
            if spec.get("flush_between"):
                conn.flush()
            getattr(q, "rot_" + axis)(angle=a2)
            conn.flush()
        finally:
            B.get_angle_spec_from_float = old
        got = [t for t in ex.trace if t[0].startswith("rot_")]
        from ..symx import EQ
        want = steps1 + steps2
        ok = z3.BoolVal(len(got) == len(want))
        if len(got) == len(want):
            ok = z3.And(*[z3.And(z3.BoolVal(g[0] == "rot_" + axis.lower()), EQ(g[2], s_[0]), EQ(g[3], s_[1])) for g, s_ in zip(got, want)])
        return [Ob("each_rotation_emits_the_steps_of_its_own_angle", ok, {"axis": axis, "two": True}, info={"angles": [repr(a1), repr(a2)], "emitted": len(got), "want": len(want)}),
                Ob("decomposition_requested_for_each_angle_exactly", asked == [float(a1), float(a2)], {"axis": axis, "two": True},
                   info={"angles": [repr(a1), repr(a2)], "asked": [repr(a) for a in asked]})]
    return body


def body_builder_types(spec):
    """the angle may be given as any real number type (int, numpy floats): same rotations as for the equal Python float (concrete)"""
    import numpy as np
    axis = spec["axis"]

    def emitted(angle):
        ex = TraceExecutor("ctrl")
        conn = PipeConnection("app", executor=ex)
        q = Qubit(conn)
        getattr(q, "rot_" + axis)(angle=angle)
        conn.flush()
        return [t for t in ex.trace if t[0].startswith("rot_")]

    def body(inp):
        obs = []
        for val in (1, 3, np.float64(2.25), np.float32(0.5), np.int64(2)):
            want = emitted(float(val))
            try:
                got = emitted(val)
            except (PathAbort, Infeasible):
                raise
            except Exception as e:  # noqa
                got = f"{type(e).__name__}: {e}"
            obs.append(Ob("angle_of_any_real_type", got == want and len(want) > 0, {"axis": axis, "type": type(val).__name__},
                          info={"angle": repr(val), "emitted": repr(got)[:200], "for_float": repr(want)[:200]}))
        # an explicit angle of zero is an angle too: it overrides n / d and emits nothing
        for zero in (0.0, -0.0, 0):
            ex = TraceExecutor("ctrl")
            conn = PipeConnection("app", executor=ex)
            q = Qubit(conn)
            getattr(q, "rot_" + axis)(n=1, d=1, angle=zero)
            conn.flush()
            got = [t for t in ex.trace if t[0].startswith("rot_")]
            obs.append(Ob("zero_angle_overrides_n_d", got == [], {"axis": axis, "type": "zero"}, info={"angle": repr(zero), "emitted": repr(got)[:200]}))
        return obs
    return body


def body_of(spec):
    if spec.get("kind") == "builder_types":
        return body_builder_types(spec)
    if spec.get("kind") == "builder_two":
        return body_builder_two(spec)
    return body_builder(spec) if spec.get("kind") == "builder" else make_body(spec)


def work(spec):
    ex = Explorer(max_paths=200000, budget_s=spec.get("budget", 1500), max_depth=400, timeout_ms=spec.get("timeout_ms", 30000), branch_timeout_ms=10000)
    ex.run(body_of(spec))
    res = worker_result(ex, samples=[dict(spec, paths=ex.stats.paths)])
    for c in res["cexs"]:
        c["info"] = {"spec": spec, "detail": c["info"]}
    if spec.get("hunt"):
        # a time-boxed slice: stopping at the budget is its stated bound, not an inconclusive verdict
        res["truncated"] = [a for a in res["aborts"] if "budget" in a or "path bound" in a]
        res["aborts"] = [a for a in res["aborts"] if a not in res["truncated"]]
        res["hunt_paths"] = ex.stats.paths
        res["undecided"] = len(res["unknowns"])      # solver `unknown` inside a hunting slice: counted, not a verdict either way
        res["unknowns"] = []
    return res


def _frac(v):
    if isinstance(v, list):
        return Fraction(v[0], v[1])
    return Fraction(v)


def replay(harness, cex):
    """concrete replay on the real function with real floats (no stubs)"""
    spec = cex["info"]["spec"]
    if spec.get("kind") == "builder_types":
        res = run_concrete(body_builder_types(spec), cex["values"])
        bad = [(lab, info) for lab, ok, site, info in res if not ok]
        return bool(bad), f"builder with a non-float angle: {bad[:2]}"
    if spec.get("kind") == "builder_two":
        res = run_concrete(body_builder_two(spec), cex["values"])
        bad = [lab for lab, ok, site, info in res if not ok]
        return bool(bad), f"second rotation of a connection: {bad}"
    if spec.get("kind") == "builder":
        res = run_concrete(body_builder(spec), cex["values"])
        bad = [lab for lab, ok, site, info in res if not ok]
        return bool(bad), f"builder emitted a different rotation sequence: {bad}"
    vals = cex["values"]
    r = _frac(vals.get("r_mod1", 0))
    if spec.get("nomod"):
        r = _frac(vals.get("angle", 0))
    tol = float(_frac(vals["tol"]))
    two_pi = 2 * PI_F
    candidates = []
    if r >= Fraction(two_pi):
        candidates.append(-1e-20)          # float modulo rounds up to 2 pi itself
    candidates += [float(r), float(r) + two_pi, float(r) - 2 * two_pi]
    # the solver's r often sits exactly on a floor / band boundary, which float rounding can cross: also try r nudged upwards a little
    candidates += [float(r) * (1 + k * 2.0 ** -40) for k in (1, 16, 256, 4096)]
    import math
    problems = []
    tol_first = tol
    for angle in candidates:
        _STATE.reset()
        tol = tol_first
        try:
            if spec.get("twice") == "near":
                sp.get_angle_spec_from_float(angle, tol_first)
                angle = angle + float(_frac(vals["delta"]))
            elif spec.get("twice"):
                sp.get_angle_spec_from_float(angle, tol_first)
                tol = float(_frac(vals["tol2"]))
            nds = sp.get_angle_spec_from_float(angle, tol)
        except Exception as e:  # noqa
            problems.append(f"angle={angle!r} tol={tol!r}: raises {type(e).__name__}: {e}")
            continue
        rr = Fraction(angle % two_pi) / Fraction(PI_F)
        tot = sum((Fraction(int(n), 1) / (Fraction(2) ** int(d)) if d >= 0 else Fraction(int(n)) * 2 ** (-int(d))) for n, d in nds)
        bad = []
        if any(not (1 <= n <= 255) for n, d in nds):
            bad.append("numerator outside 1..255")
        if any(not (0 <= d <= 255) for n, d in nds):
            bad.append("exponent outside 0..255")
        if abs(rr - tot) > Fraction(tol) * (1 + Fraction(1, 10 ** 6)) + Fraction(1, 10 ** 14):
            bad.append(f"error {float(abs(rr - tot)):.3e} > tol {tol:.3e}")
        res_ = rr - tot
        if res_ > Fraction(tol) * (1 + Fraction(1, 10 ** 6)) + Fraction(1, 10 ** 14) and res_ > 0:
            q = Fraction(255) / res_
            D = q.numerator.bit_length() - q.denominator.bit_length()
            while Fraction(2) ** D > q:
                D -= 1
            while Fraction(2) ** (D + 1) <= q:
                D += 1
            nn = int(res_ * Fraction(2) ** D)
            dd = D
            while nn and nn % 2 == 0 and dd > 0:
                nn, dd = nn // 2, dd - 1
            # stay away from the band boundaries, where the float code may legitimately have picked the neighbouring exponent
            clear = Fraction(2) ** D * (1 + Fraction(1, 2 ** 40)) < q < Fraction(2) ** (D + 1) * (1 - Fraction(1, 2 ** 40))
            if dd < 32 and clear and 1 <= nn <= 255:
                bad.append(f"dropped an encodable step: residual {float(res_):.3e} continues with ({nn}, {dd})")
        if bad:
            problems.append(f"get_angle_spec_from_float({angle!r}, {tol!r}) = {nds}: " + "; ".join(bad))
    label = cex["label"]
    match = [p for p in problems if (label in ("within_tolerance", "within_twice_tolerance") and "error" in p) or (label == "exponent_encodable" and "exponent" in p)
             or (label == "numerator_encodable" and "numerator" in p) or (label == "drops_only_unencodable_steps" and "dropped an encodable" in p) or (label == "no_exception" and "raises" in p)]
    return bool(match), "; ".join(match or problems)[:600] or "not reproduced with floats"


def main(tier, seed):
    rep = Report(PID, tier, seed,
                 "bounded symbolic execution of the real get_angle_spec_from_float on a real-valued angle and tolerance (z3 Reals and "
                 "Ints, QF_LIRA); the loop is unrolled until z3 refutes `rest > tol`; on every path the encodability of every step and "
                 "|sum n/2^d - r/pi| <= tol are decided by z3; counterexamples are replayed with real floats on the unstubbed function")
    # measured on 16 cores: whole range down to 1e-4 = 22 s, down to 1e-5 = 13 min; below that the exhaustive exploration is out of
    # reach (about 0.5 s of solver time per path, path count growing by ~8 per decade), so tighter tolerances are covered by SLICES:
    # one point tolerance and fixed first / second exponents each; the tiny ones complete, the 4-step ones are explored under a time
    # budget and reported as hunting (non-exhaustive) -- they are there to catch changes that only bite below 1e-6.
    tol_lo = Fraction(1, 40000) if tier == "thorough" else Fraction(1, 10 ** 4)
    if os.environ.get("VERIF_C19_TOL"):          # sizing experiments only
        tol_lo = Fraction(os.environ["VERIF_C19_TOL"])
    specs = []
    # partition by the first exponent d0: 255/rest in [2^d0, 2^(d0+1)), rest in (tol, 2]
    import math
    dmax = int(math.floor(math.log2(255 / float(tol_lo)))) + 1

    def add(tl, th, d0):
        # second-level partition by the second exponent (d1 = d0 + 7 .. d0 + 8 are the only feasible values plus a margin)
        base = {"tol_lo": tl, "tol_hi": th, "d0": d0}
        if d0 is None:
            specs.append(base)
            return
        specs.append(dict(base, d1="none"))
        for d1 in range(d0 + 1, d0 + 18):
            specs.append(dict(base, d1=d1))

    for d0 in range(6, dmax + 1):
        add(str(tol_lo), "1/10", d0)
    add(str(tol_lo), "1/10", None)
    th = tier == "thorough"
    # slices in the regime of the recorded finding (tol < 255/2^32): a single step with exponent 32..34 (38 thorough); exhaustive
    for d0 in range(32, 39 if th else 35):
        specs.append({"tol_lo": "1/1000000000", "tol_hi": "1/1000000000", "d0": d0, "d1": "none"})
    if th:
        for d0 in (6, 20, 25, 26):
            for d1 in (d0 + 7, d0 + 8):
                specs.append({"tol_lo": "1/1000000000", "tol_hi": "1/1000000000", "d0": d0, "d1": d1, "hunt": True, "budget": 600})
    # slices that need four steps (tol 1e-7 .. 1e-6): hunting, time-boxed
    hb = 600 if th else 25
    specs.append({"tol_lo": "1/10000000", "tol_hi": "1/10000000", "d0": 6, "d1": 14, "hunt": True, "budget": hb})
    specs.append({"tol_lo": "1/10000000", "tol_hi": "1/1000000", "d0": 7, "d1": 15, "hunt": True, "budget": hb})
    if th:
        specs.append({"tol_lo": "1/100000000", "tol_hi": "1/100000000", "d0": 6, "d1": 13, "hunt": True, "budget": hb})
        specs.append({"tol_lo": "1/1000000", "tol_hi": "1/1000000", "d0": 8, "d1": 15, "hunt": True, "budget": hb})
    specs.append({"tol_lo": "1/100", "tol_hi": "1/10", "d0": "free", "nomod": True, "budget": 120})
    specs.append({"tol_lo": "1/10000", "tol_hi": "12/100000", "d0": 6, "d1": "any", "twice": "near", "budget": 300})
    for d0 in ((6, 7) if th else (6,)):
        specs.append({"tol_lo": "1/1000", "tol_first_lo": "1/100", "tol_hi": "1/10", "d0": d0, "d1": "any", "twice": True, "budget": 1200})
    for axis in ("X", "Y", "Z"):
        specs.append({"kind": "builder", "axis": axis})
        specs.append({"kind": "builder_types", "axis": axis})
        for j, (a1, a2) in enumerate([(0.570955, 0.571045), (1.0, 1.0 + 2e-5), (2.5, 2.5 - 1e-7), (-0.3, -0.3 + 3e-6), (0.75, 0.75 + 2.0 ** -40)]):
            specs.append({"kind": "builder_two", "axis": axis, "angles": [a1, a2], "flush_between": bool(j % 2)})
    nhunt = sum(1 for sp_ in specs if sp_.get("hunt"))
    rep.bounds = [f"EXHAUSTIVE: all real angles (through r = angle mod 2 pi in [0, 2 pi]) x all tolerances in [{float(tol_lo):g}, 0.1] (the SDK's default 1e-4 "
                  f"included), partitioned by the first and second exponent; at most {MAX_STEPS} loop iterations (checked)",
                  f"EXHAUSTIVE slices at tolerance 1e-9: angles whose decomposition is a single step with exponent 32..{38 if th else 34} (regime of the recorded "
                  "finding; also decides `drops_only_unencodable_steps` there)",
                  f"HUNTING (time-boxed, not exhaustive; explored path counts in `hunting_slices`): {nhunt} slices with a point tolerance between 1e-9 and 1e-6 "
                  "and fixed first two exponents, which need four steps",
                  "builder: 0..3 steps with symbolic (n, d), axes X, Y, Z; two rotations on one connection with angles 2^-40 .. 9e-5 apart (5 concrete pairs, symbolic step lists, with / without a flush in between)"]
    rep.outside = [f"tolerances below {float(tol_lo):g} other than the slices above (measured: the exhaustive exploration costs 22 s down to 1e-4, 13 min down to "
                   "1e-5 on 16 cores and grows about tenfold per decade)",
                   "float rounding of `%` and `/ pi` beyond the stub contracts (relative 2^-53, absorbed by r)", "non-finite angles"]
    rep.stubs = ["np / int of netqasm.sdk.toolbox.state_prep replaced by vf/symreal.py: float modulo returns any r in [0, 2 pi] (closed: the float "
                 "result can round up to 2 pi); scaling by powers of two and `rest -= n/2**d` exact; floor(log2(c/x)) any integer D with "
                 "2^D <= (c/x)(1+2^-50), (c/x)(1-2^-50) < 2^(D+1); floor/int of a real: k <= v < k+1",
                 "builder check: get_angle_spec_from_float replaced by a symbolic step list"]
    hunting = []
    if th:
        for sp_ in specs:
            sp_.setdefault("timeout_ms", 120000)
    specs.sort(key=lambda sp_: -sp_.get("budget", 0))
    for sp_, r in zip(specs, pmap(work, specs)):
        rep.merge_worker("angles", r)
        if sp_.get("hunt"):
            hunting.append({"slice": {k: sp_[k] for k in ("tol_lo", "tol_hi", "d0", "d1")}, "paths_explored": r.get("hunt_paths"),
                            "stopped_by_budget": bool(r.get("truncated")), "obligations_undecided": r.get("undecided", 0)})
    rep.section("angles", None, specs=len(specs))
    rep.extra["hunting_slices"] = hunting
    ex = Explorer(max_paths=50)
    ex.run(make_body({"tol_lo": "1/100", "tol_hi": "1/10", "d0": 7}, falsify=True))
    refuted = any(c.label == "within_tolerance" for c in ex.cexs)
    if not refuted:       # code that does not use the float modulo is only reachable through the fallback spec
        ex = Explorer(max_paths=200, budget_s=60)
        ex.run(make_body({"tol_lo": "1/100", "tol_hi": "1/10", "d0": "free", "nomod": True}, falsify=True))
        refuted = any(c.label == "within_tolerance" for c in ex.cexs)
    rep.witness("tolerance with falsified oracle", refuted)

    def one():
        Explorer(max_paths=3).run(make_body({"tol_lo": "1/100", "tol_hi": "1/10", "d0": 8}))
        Explorer(max_paths=3).run(body_builder({"kind": "builder", "axis": "X"}))
    rep.functions_encoded |= trace_functions(one)
    return rep.finish(replay)
