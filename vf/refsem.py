"""refsem -- an independent reference semantics of NetQASM's classical instructions, written from the
ISA description (DESIGN.md appendix B), used as the oracle of C03/C04/C05/C08.

Values are python ints, symx proxies (the reference then forks in the same Explorer as the code
under test) or None for "undefined".  The reference dispatches on the instruction *mnemonic* and
reads operands through the generic ``operands`` list, not through the executor's handler table.
"""
from typing import Dict, List, Optional


class RefFault(Exception):
    def __init__(self, line: int, why: str):
        super().__init__(f"ref fault at line {line}: {why}")
        self.line = line
        self.why = why


class Unspecified(Exception):
    """behaviour the property does not name (negative index, compare undefined, ...)"""


def conc(v, bound):
    """concretise an index-like reference value that is known to lie in 0..bound-1 (forks in the active Explorer)"""
    from .symx import SymInt, cur
    if isinstance(v, SymInt):
        return cur().concretize(v, bound + 1)
    return v


MAX_SYM_ARRAY = 4


class RefState:
    def __init__(self, unit_size: int):
        self.regs: Dict[tuple, object] = {}          # (bank name, index) -> value
        self.arrays: Dict[int, List[object]] = {}
        self.shared_regs: Dict[tuple, object] = {}
        self.shared_arrays: Dict[int, List[object]] = {}     # snapshot at ret_arr time
        self.shared_live: Dict[int, bool] = {}                 # address -> returned at least once
        self.shared_dirty: Dict[int, bool] = {}                # address -> written after its last ret_arr
        self.unit: List[bool] = [False] * unit_size
        self.events: List[tuple] = []
        self.outcomes: List[object] = []

    def reg(self, r):
        return self.regs.get((r.name.name, r.index))

    def setreg(self, r, v):
        self.regs[(r.name.name, r.index)] = v

    def clone_arrays(self):
        return {a: list(v) for a, v in self.arrays.items()}


def _index(state: RefState, line: int, entry_index):
    """index operand of an array entry: Register or literal int"""
    if isinstance(entry_index, int):
        return entry_index
    v = state.reg(entry_index)
    if v is None:
        raise RefFault(line, "index register undefined")
    return v


def _entry(state: RefState, line: int, entry, must_exist=True):
    addr = entry.address.address
    if addr not in state.arrays:
        raise RefFault(line, "array not declared")
    idx = _index(state, line, entry.index)
    arr = state.arrays[addr]
    if idx < 0:
        raise Unspecified("negative index")
    if idx >= len(arr):
        raise RefFault(line, "index past the end")
    return arr, conc(idx, len(arr))


def step(state: RefState, prog: list, pc: int) -> int:
    """execute prog[pc]; returns the new pc; raises RefFault(pc, ...)"""
    ins = prog[pc]
    mn = ins.mnemonic
    ops = ins.operands
    if mn == "set":
        state.setreg(ops[0], ops[1].value)
    elif mn in ("add", "sub", "addm", "subm"):
        if mn.endswith("m"):
            m = state.reg(ops[3])
            if m is None:
                raise Unspecified("modulus undefined")
            if m < 1:
                raise RefFault(pc, "modulus below one")
        a, b = state.reg(ops[1]), state.reg(ops[2])
        if a is None or b is None:
            raise RefFault(pc, "operand undefined")
        r = a + b if mn.startswith("add") else a - b
        if mn.endswith("m"):
            r = r % m     # m >= 1: result in 0..m-1
        state.setreg(ops[0], r)
    elif mn == "array":
        n = state.reg(ops[0])
        if n is None:
            raise RefFault(pc, "length undefined")
        if n < 0:
            raise Unspecified("negative length")
        from .symx import SymInt
        if isinstance(n, SymInt):
            if n > MAX_SYM_ARRAY:
                raise Unspecified("symbolic array length above the bound")
            n = conc(n, MAX_SYM_ARRAY + 1)
        state.arrays[ops[1].address] = [None] * n
        state.shared_dirty[ops[1].address] = True
    elif mn == "store":
        v = state.reg(ops[0])
        if v is None:
            raise RefFault(pc, "storing undefined value")
        arr, i = _entry(state, pc, ops[1])
        arr[i] = v
        state.shared_dirty[ops[1].address.address] = True
    elif mn == "load":
        arr, i = _entry(state, pc, ops[1])
        if arr[i] is None:
            raise RefFault(pc, "loading undefined value")
        state.setreg(ops[0], arr[i])
    elif mn == "undef":
        arr, i = _entry(state, pc, ops[0])
        arr[i] = None
        state.shared_dirty[ops[0].address.address] = True
    elif mn == "lea":
        state.setreg(ops[0], ops[1].address)
    elif mn == "jmp":
        return ops[0].value
    elif mn in ("bez", "bnz"):
        a = state.reg(ops[0])
        if a is None:
            raise Unspecified("branch on undefined")
        taken = (a == 0) if mn == "bez" else (a != 0)
        if taken:
            return ops[1].value
    elif mn in ("beq", "bne", "blt", "bge"):
        a, b = state.reg(ops[0]), state.reg(ops[1])
        if a is None or b is None:
            raise Unspecified("branch on undefined")
        taken = {"beq": lambda: a == b, "bne": lambda: a != b, "blt": lambda: a < b, "bge": lambda: a >= b}[mn]()
        if taken:
            return ops[2].value
    elif mn == "qalloc":
        q = state.reg(ops[0])
        if q is None:
            raise RefFault(pc, "qubit address undefined")
        if q < 0:
            raise Unspecified("negative qubit address")
        if q >= len(state.unit):
            raise RefFault(pc, "outside unit module")
        q = conc(q, len(state.unit))
        if state.unit[q]:
            raise RefFault(pc, "double allocation")
        state.unit[q] = True
        state.events.append(("qalloc", q))
    elif mn == "qfree":
        q = state.reg(ops[0])
        if q is None:
            raise RefFault(pc, "qubit address undefined")
        if q < 0:
            raise Unspecified("negative qubit address")
        if q >= len(state.unit):
            raise RefFault(pc, "outside unit module")
        q = conc(q, len(state.unit))
        if not state.unit[q]:
            raise RefFault(pc, "freeing unallocated qubit")
        state.unit[q] = False
        state.events.append(("qfree", q))
    elif mn == "ret_reg":
        v = state.reg(ops[0])
        if v is None:
            raise RefFault(pc, "returning undefined register")
        state.shared_regs[(ops[0].name.name, ops[0].index)] = v
    elif mn == "ret_arr":
        a = ops[0].address
        if a not in state.arrays:
            raise RefFault(pc, "array not declared")
        state.shared_arrays[a] = list(state.arrays[a])
        state.shared_live[a] = True
        state.shared_dirty[a] = False
    elif mn == "meas":
        q = state.reg(ops[0])
        if q is None:
            raise RefFault(pc, "qubit address undefined")
        if not state.outcomes:
            raise Unspecified("outcome script exhausted")
        m = state.outcomes.pop(0)
        state.events.append(("meas", q))
        state.setreg(ops[1], m)
    elif mn in ("x", "y", "z", "h", "s", "k", "t", "init"):
        q = state.reg(ops[0])
        if q is None:
            raise RefFault(pc, "qubit address undefined")
        state.events.append((mn, q))
    elif mn in ("rot_x", "rot_y", "rot_z"):
        q = state.reg(ops[0])
        if q is None:
            raise RefFault(pc, "qubit address undefined")
        state.events.append((mn, q, ops[1].value, ops[2].value))
    elif mn in ("cnot", "cphase"):
        q0, q1 = state.reg(ops[0]), state.reg(ops[1])
        if q0 is None or q1 is None:
            raise RefFault(pc, "qubit address undefined")
        state.events.append((mn, q0, q1))
    elif mn in ("wait_all", "wait_any"):
        sl = ops[0]
        a = sl.address.address
        if a not in state.arrays:
            raise RefFault(pc, "array not declared")
        lo, hi = _index(state, pc, sl.start), _index(state, pc, sl.stop)
        arr = state.arrays[a]
        if lo < 0 or hi < 0:
            raise Unspecified("negative slice bound")
        if hi > len(arr) or lo > hi:
            raise Unspecified("slice bound outside the array")
        lo, hi = conc(lo, len(arr) + 1), conc(hi, len(arr) + 1)
        vals = arr[lo:hi]
        ok = all(v is not None for v in vals) if mn == "wait_all" else any(v is not None for v in vals)
        if not ok:
            raise Unspecified("wait would block")
    elif mn == "wait_single":
        arr, i = _entry(state, pc, ops[0])
        if arr[i] is None:
            raise Unspecified("wait would block")
    else:
        raise Unspecified(f"instruction {mn} not in the reference semantics")
    return pc + 1


def run(state: RefState, prog: list, max_steps: int):
    """returns ('done', None) | ('fault', RefFault) ; raises Unspecified; ('steps', None) when the bound is hit"""
    pc = 0
    steps = 0
    while pc < len(prog):
        if pc < 0:
            raise Unspecified("negative target")
        if steps >= max_steps:
            return "steps", None
        try:
            pc = step(state, prog, pc)
        except RefFault as f:
            return "fault", f
        steps += 1
    if pc > len(prog):
        raise Unspecified("target past the end")
    return "done", None
