"""Shared pieces of the codec checks (C01, C02, C15, C16): symbolic operand construction from the
real instruction classes, structural equality of decoded instructions, and an independent
reference encoder written from the layout sentence of C02 + spec/wire_table.json."""
import dataclasses
import json
import os
import subprocess
import sys
import typing

import z3

from . import cmodel
from .common import ROOT, REPLAY_DIR

MODEL = "VERIF_REAL_CTYPES" not in os.environ
if MODEL:
    cmodel.install()

from netqasm.lang.encoding import RegisterName  # noqa: E402
from netqasm.lang.instr import base, core, nv, vanilla  # noqa: E402
from netqasm.lang.instr import flavour as flavour_mod  # noqa: E402
from netqasm.lang.operand import Address, ArrayEntry, ArraySlice, Immediate, Register  # noqa: E402

from .cmodel import SymBV, Tags, as_term  # noqa: E402

BANKS = [RegisterName.R, RegisterName.C, RegisterName.Q, RegisterName.M]
SPEC = json.load(open(os.path.join(ROOT, "spec", "wire_table.json")))
# operand ranges of the property statement (not read from the code under test)
RANGE = {"regidx": (4, False), "imm8": (8, False), "int32": (32, True), "addr": (32, True)}
# instruction shapes whose Immediate operand is a 32-bit integer (everything else: 8-bit immediates)
WIDE_IMM_SHAPES = ("ImmInstruction", "RegImmInstruction", "RegRegImmInstruction")


def flavours():
    """fresh flavour objects, created in the order a process using several of them would"""
    return {"vanilla": flavour_mod.VanillaFlavour(), "nv": flavour_mod.NVFlavour(), "reids": flavour_mod.REIDSFlavour()}


def flavour_classes(name):
    f = {"vanilla": flavour_mod.VanillaFlavour, "nv": flavour_mod.NVFlavour, "reids": flavour_mod.REIDSFlavour}[name]()
    return list(flavour_mod.CORE_INSTRUCTIONS) + list(f.instrs)


def operand_fields(cls):
    """[(field name, python type)] of the operand fields of an instruction dataclass, declared order"""
    hints = typing.get_type_hints(cls)
    return [(f.name, hints[f.name]) for f in dataclasses.fields(cls) if f.name not in ("id", "mnemonic", "lineno", "text")]


def shape_kinds(cls):
    """operand kinds by the instruction's base shape (C01: 'encodable range' of every operand)"""
    wide = any(b.__name__ in WIDE_IMM_SHAPES for b in cls.__mro__)
    out = []
    for _n, t in operand_fields(cls):
        if t is Register:
            out.append("reg")
        elif t is Immediate:
            out.append("int32" if wide else "imm8")
        elif t is Address:
            out.append("addr")
        elif t is ArrayEntry:
            out.append("entry")
        elif t is ArraySlice:
            out.append("slice")
        else:
            raise TypeError(f"unknown operand type {t} in {cls.__name__}")
    return out


def n_regs(kinds):
    return sum({"reg": 1, "entry": 1, "slice": 2}.get(k, 0) for k in kinds)


class OpMaker:
    """creates operands from an input source; records the reference view (kind, bank, value terms)"""

    def __init__(self, inp, prefix, banks):
        self.inp, self.prefix, self.banks = inp, prefix, list(banks)
        self.n = 0
        self.ref = []   # flat list of ("reg", bank, idx) | ("imm8", v) | ("int32", v) | ("addr", v)

    def _v(self, kind):
        bits, signed = RANGE[kind]
        self.n += 1
        return self.inp.bv(f"{self.prefix}_{kind}{self.n}", bits, signed)

    def reg(self):
        bank = self.banks.pop(0) if self.banks else 0
        idx = self._v("regidx")
        self.ref.append(("reg", bank, idx))
        return Register(BANKS[bank], idx)

    def make(self, kind):
        if kind == "reg":
            return self.reg()
        if kind in ("imm8", "int32"):
            v = self._v(kind)
            self.ref.append((kind, v))
            return Immediate(v)
        if kind == "addr":
            v = self._v("addr")
            self.ref.append(("addr", v))
            return Address(v)
        if kind == "entry":
            a = self.make("addr")
            return ArrayEntry(a, self.reg())
        if kind == "slice":
            a = self.make("addr")
            r0 = self.reg()
            return ArraySlice(a, r0, self.reg())
        raise ValueError(kind)


def make_instr(cls, kinds, mk: OpMaker):
    kw = {}
    for (fname, _t), kind in zip(operand_fields(cls), kinds):
        kw[fname] = mk.make(kind)
    return cls(**kw)


# ----------------------------------------------------------------------------- equality as formulas

def EQV(a, b, bits=64):
    """formula: integer values a and b (python int or SymBV) are equal"""
    if not isinstance(a, int) or not isinstance(b, int) or isinstance(a, bool) or isinstance(b, bool):
        return z3.BoolVal(a == b) if not (isinstance(a, SymBV) or isinstance(b, SymBV)) else z3.BoolVal(False)
    if isinstance(a, SymBV) or isinstance(b, SymBV):
        sa = a.signed if isinstance(a, SymBV) else a < 0
        sb = b.signed if isinstance(b, SymBV) else b < 0
        return as_term_s(a, bits, sa) == as_term_s(b, bits, sb)
    return z3.BoolVal(int(a) == int(b))


def as_term_s(v, bits, signed):
    if isinstance(v, SymBV):
        return cmodel._resize(v.bv, v.signed, bits)
    return z3.BitVecVal(int(v), bits)


def eq_operand(a, b):
    if type(a) is not type(b):
        return z3.BoolVal(False)
    if isinstance(a, Register):
        return z3.And(z3.BoolVal(a.name is b.name), EQV(a.index, b.index))
    if isinstance(a, Immediate):
        return EQV(a.value, b.value)
    if isinstance(a, Address):
        return EQV(a.address, b.address)
    if isinstance(a, ArrayEntry):
        return z3.And(eq_operand(a.address, b.address), eq_operand(a.index, b.index))
    if isinstance(a, ArraySlice):
        return z3.And(eq_operand(a.address, b.address), eq_operand(a.start, b.start), eq_operand(a.stop, b.stop))
    return z3.BoolVal(a == b)


def byte_terms(raw: bytes):
    """8-bit terms of serialised data (tagged under the model, plain under real ctypes)"""
    if MODEL:
        return Tags.terms(raw)
    return [z3.BitVecVal(b, 8) for b in raw]


# ----------------------------------------------------------------------------- reference encoder (C02)

def _le(v, nbytes, signed):
    t = as_term_s(v, 8 * nbytes, signed)
    return [z3.Extract(8 * i + 7, 8 * i, t) for i in range(nbytes)]


def ref_reg_byte(bank: int, idx):
    """register byte = 2-bit bank in the low bits, then a 4-bit index, top bits zero"""
    i = as_term_s(idx, 8, False)
    return ((i & z3.BitVecVal(0x0F, 8)) << 2) | z3.BitVecVal(bank & 3, 8)


def ref_command_bytes(opcode: int, ref_ops):
    out = [z3.BitVecVal(opcode, 8)]
    for op in ref_ops:
        if op[0] == "reg":
            out.append(ref_reg_byte(op[1], op[2]))
        elif op[0] == "imm8":
            out += _le(op[1], 1, False)
        elif op[0] in ("int32", "addr"):
            out += _le(op[1], 4, True)
        else:
            raise ValueError(op)
    n = SPEC["command_bytes"]
    if len(out) > n:
        raise ValueError("reference command longer than 7 bytes")
    return out + [z3.BitVecVal(0, 8)] * (n - len(out))


def ref_header_bytes(v0, v1, app_id):
    return _le(v0, 1, False) + _le(v1, 1, False) + _le(app_id, 2, False)


def spec_row(flavour_name, mnemonic):
    if mnemonic in SPEC[flavour_name]:
        return SPEC[flavour_name][mnemonic]
    return SPEC["core"].get(mnemonic)


# ----------------------------------------------------------------------------- inputs with bit-vectors

def add_bv_inputs(inp):
    """give an input source a .bv(name, bits, signed) method (SymBV / plain int)"""
    if getattr(inp, "symbolic", False):
        signs = {}

        def bv(name, bits, signed=False, _inp=inp):
            assert name not in _inp.vars, name
            v = z3.BitVec(name, bits)
            _inp.vars[name] = v
            signs[name] = signed
            return SymBV(v, signed)

        inp.bv = bv
        old = inp.values_from_model

        def vfm(model, _old=old):
            out = _old(model)
            for k, s in signs.items():
                if s:
                    val = model.eval(inp.vars[k], model_completion=True)
                    out[k] = val.as_signed_long()
            return out

        inp.values_from_model = vfm
    else:
        def bvc(name, bits, signed=False, _inp=inp):
            v = _inp.values.get(name, 0)
            _inp.used[name] = v
            return int(v)

        inp.bv = bvc
    return inp


# ----------------------------------------------------------------------------- replay in a real-ctypes process

def subprocess_replay(pid: str, harness: str, cex: dict):
    """re-run a counterexample on plain ints with the REAL ctypes in a fresh process.  Code that computes with the VALUES of raw bytes
    (e.g. int.from_bytes) sees tag numbers in the model, so the model's counterexample values can be ones for which the real code
    happens to agree; if the solver's valuation does not reproduce, the same obligation is replayed on a few perturbed valuations
    (each field xor-ed with a pattern inside its magnitude class) -- whatever is reported has been reproduced on the real code."""
    rep, out = _subprocess_replay_once(pid, harness, cex)
    if rep is not False:
        return rep, out
    for pat in (0x0102, 0x5A3C, 0x00FF):
        vals = {}
        for k, v in cex.get("values", {}).items():
            if isinstance(v, int) and not isinstance(v, bool) and v >= 0:
                mask = 0xF if v < 16 else 0xFF if v < 256 else 0xFFFF if v < 65536 else 0x7FFFFFFF
                vals[k] = v ^ (pat & mask)
            else:
                vals[k] = v
        rep2, out2 = _subprocess_replay_once(pid, harness, dict(cex, values=vals))
        if rep2:
            cex["values"] = vals          # the replay file must carry the valuation that reproduced
            return True, "(reproduced on a perturbed valuation) " + out2
    # boundary valuations per field kind (sign bit / top bit of the field set, all ones): code that reads raw bytes with the wrong
    # signedness or width agrees with the real layout on every small value
    def _width(name):
        n = name.lower()
        if "app_id" in n:
            return 16, False
        if "regidx" in n:
            return 4, False
        if "int32" in n or "addr" in n:
            return 32, True
        if "imm" in n or "ver" in n:
            return 8, False
        return None, False
    for mode in ("top", "ones", "mixed"):
        vals = {}
        for k, v in cex.get("values", {}).items():
            w, signed = _width(k)
            if w is None or not isinstance(v, int) or isinstance(v, bool):
                vals[k] = v
                continue
            u = (1 << (w - 1)) | (v & ((1 << (w - 1)) - 1)) if mode == "top" else (1 << w) - 1 if mode == "ones" else ((0xA5C3A5C3 >> (32 - w)) | (1 << (w - 1))) & ((1 << w) - 1)
            vals[k] = u - (1 << w) if signed and u >= 1 << (w - 1) else u
        rep2, out2 = _subprocess_replay_once(pid, harness, dict(cex, values=vals))
        if rep2:
            cex["values"] = vals
            return True, "(reproduced on a boundary valuation) " + out2
    return rep, out


def _subprocess_replay_once(pid: str, harness: str, cex: dict):
    os.makedirs(REPLAY_DIR, exist_ok=True)
    path = os.path.join(REPLAY_DIR, f".tmp_{pid}_{os.getpid()}_{abs(hash(json.dumps(cex, sort_keys=True, default=repr))) % 10**10}.json")
    blob = dict(cex)
    blob["harness"] = harness
    blob["property"] = pid
    with open(path, "w") as f:
        json.dump(blob, f, default=repr)
    env = dict(os.environ)
    env["VERIF_REAL_CTYPES"] = "1"
    env["PYTHONPATH"] = ROOT + os.pathsep + env.get("PYTHONPATH", "")
    try:
        p = subprocess.run([sys.executable, "-m", "vf.run", pid, "--replay", path], cwd=ROOT, env=env,
                           capture_output=True, text=True, timeout=600)
    finally:
        try:
            os.unlink(path)
        except OSError:
            pass
    out = (p.stdout + p.stderr).strip()
    if p.returncode == 1:
        return True, out[-1500:]
    if p.returncode == 0:
        return False, out[-1500:]
    return None, f"replay process failed rc={p.returncode}: {out[-1500:]}"
