"""symx -- z3-backed proxy execution of real Python code.

SymInt is an ``int`` subclass (so it passes isinstance(x, int) checks in netqasm) whose C-level
payload is a poison value and which carries a z3 Int term.  SymBool.__bool__ is the fork
point: the Explorer re-executes the harness body once per path (depth-first, decision prefix),
asking z3 which sides of each branch are feasible under the current path condition.

At the end of a path the body returns a list of obligations ``Ob(label, expr, site)``; the
negation of each is handed to z3.  unsat = discharged for every valuation of the symbolic
inputs on that path; sat = a model, i.e. concrete inputs, returned as a counterexample.
"""
from __future__ import annotations

import time
from typing import Any, Callable, Dict, List, Optional, Sequence, Tuple

import z3

POISON = 1 << 200


class PathAbort(BaseException):
    """The path cannot be continued symbolically (inconclusive, never a pass)."""


class Infeasible(BaseException):
    """Path condition became unsatisfiable (assume() failed on every continuation)."""


class _Ctx:
    cur: Optional["Explorer"] = None


def cur() -> "Explorer":
    assert _Ctx.cur is not None, "no active Explorer"
    return _Ctx.cur


# ----------------------------------------------------------------------------- terms

def lift(x):
    """python value / proxy -> z3 Int term (None if not liftable)"""
    if isinstance(x, SymInt):
        return x.e
    if isinstance(x, bool):
        return z3.IntVal(int(x))
    if isinstance(x, int):
        return z3.IntVal(int.__int__(x)) if type(x) is not int else z3.IntVal(x)
    return None


def liftb(x):
    if isinstance(x, SymBool):
        return x.e
    if isinstance(x, bool):
        return z3.BoolVal(x)
    if z3.is_bool(x):
        return x
    raise TypeError(f"not a boolean: {type(x)}")


def mk(e):
    e = z3.simplify(e)
    if z3.is_int_value(e):
        return e.as_long()
    return SymInt(e)


def mkb(e):
    e = z3.simplify(e)
    if z3.is_true(e):
        return True
    if z3.is_false(e):
        return False
    return SymBool(e)


class SymBool:
    __slots__ = ("e",)

    def __init__(self, e):
        self.e = e

    def __bool__(self):
        return cur().decide(self.e)

    def __invert__(self):
        return mkb(z3.Not(self.e))

    def __and__(self, o):
        return mkb(z3.And(self.e, liftb(o)))

    __rand__ = __and__

    def __or__(self, o):
        return mkb(z3.Or(self.e, liftb(o)))

    __ror__ = __or__

    def __eq__(self, o):
        if isinstance(o, (SymBool, bool)):
            return mkb(self.e == liftb(o))
        return NotImplemented

    def __hash__(self):
        return hash(bool(self))

    def __int__(self):
        return mk(z3.If(self.e, z3.IntVal(1), z3.IntVal(0)))

    def __repr__(self):
        return "<symbool>"


def _pydiv(a, b):
    return z3.If(b > 0, a / b, (-a) / (-b))


def _pymod(a, b):
    return a - b * _pydiv(a, b)


def _guard_zero(o):
    """python raises ZeroDivisionError on a zero divisor: fork on it"""
    if isinstance(o, SymInt):
        if o == 0:
            raise ZeroDivisionError("integer division or modulo by zero")
    elif o == 0:
        raise ZeroDivisionError("integer division or modulo by zero")


def _bin(fn, rev=False):
    def m(self, o):
        oe = lift(o)
        if oe is None:
            return NotImplemented
        a, b = (oe, self.e) if rev else (self.e, oe)
        return mk(fn(a, b))
    return m


def _cmp(fn):
    def m(self, o):
        oe = lift(o)
        if oe is None:
            return NotImplemented
        return mkb(fn(self.e, oe))
    return m


class SymInt(int):
    """int subclass carrying a z3 Int term; the int payload is poison."""

    def __new__(cls, e):
        o = int.__new__(cls, POISON)
        o.e = e
        return o

    __add__ = _bin(lambda a, b: a + b)
    __radd__ = _bin(lambda a, b: a + b, True)
    __sub__ = _bin(lambda a, b: a - b)
    __rsub__ = _bin(lambda a, b: a - b, True)
    __mul__ = _bin(lambda a, b: a * b)
    __rmul__ = _bin(lambda a, b: a * b, True)

    def __neg__(self):
        return mk(-self.e)

    def __pos__(self):
        return self

    def __abs__(self):
        return mk(z3.If(self.e >= 0, self.e, -self.e))

    def __floordiv__(self, o):
        oe = lift(o)
        if oe is None:
            return NotImplemented
        _guard_zero(o)
        return mk(_pydiv(self.e, oe))

    def __rfloordiv__(self, o):
        oe = lift(o)
        if oe is None:
            return NotImplemented
        _guard_zero(self)
        return mk(_pydiv(oe, self.e))

    def __mod__(self, o):
        oe = lift(o)
        if oe is None:
            return NotImplemented
        _guard_zero(o)
        return mk(_pymod(self.e, oe))

    def __rmod__(self, o):
        oe = lift(o)
        if oe is None:
            return NotImplemented
        _guard_zero(self)
        return mk(_pymod(oe, self.e))

    def __divmod__(self, o):
        return (self // o, self % o)

    def __truediv__(self, o):
        raise PathAbort("true division of symbolic int (float) is not modelled")

    __rtruediv__ = __truediv__

    def __pow__(self, o, m=None):
        if isinstance(o, SymInt) or m is not None:
            raise PathAbort("symbolic exponent")
        if not isinstance(o, int) or o < 0 or o > 8:
            raise PathAbort("pow outside model")
        r = 1
        for _ in range(o):
            r = r * self
        return r

    def __rpow__(self, o):
        # base concrete, exponent symbolic: concretise the exponent
        v = cur().concretize(self, 64)
        return o ** v

    def _bitop(self, *_a):
        raise PathAbort("bit operation on symbolic Int")

    def __xor__(self, o):
        # x ^ 0 = x ; x ^ 1 flips the lowest bit (exact for every python int); other operands are not modelled
        if isinstance(o, SymInt) or not isinstance(o, int) or o not in (0, 1):
            raise PathAbort("bit operation on symbolic Int")
        if o == 0:
            return self
        return mk(z3.If(self.e % 2 == 0, self.e + 1, self.e - 1))

    __rxor__ = __xor__

    def __and__(self, o):
        if isinstance(o, SymInt) or not isinstance(o, int) or o != 1:
            raise PathAbort("bit operation on symbolic Int")
        return mk(self.e % 2)

    __rand__ = __and__
    __or__ = __ror__ = _bitop
    __lshift__ = __rlshift__ = __rshift__ = __rrshift__ = __invert__ = _bitop

    __eq__ = _cmp(lambda a, b: a == b)
    __ne__ = _cmp(lambda a, b: a != b)
    __lt__ = _cmp(lambda a, b: a < b)
    __le__ = _cmp(lambda a, b: a <= b)
    __gt__ = _cmp(lambda a, b: a > b)
    __ge__ = _cmp(lambda a, b: a >= b)

    def __hash__(self):
        return hash(cur().concretize(self, cur().max_concretize))

    def __bool__(self):
        return bool(self != 0)

    def __index__(self):
        return cur().concretize(self, cur().max_concretize)

    def __int__(self):
        return self

    def __float__(self):
        raise PathAbort("float() of symbolic int")

    def __round__(self, n=None):
        return self

    def __trunc__(self):
        return self

    def __format__(self, spec):
        return "<sym>"

    def __str__(self):
        return "<sym>"

    __repr__ = __str__

    def __reduce__(self):
        raise PathAbort("pickle/copy of symbolic int")

    def __deepcopy__(self, memo):
        return self

    def __copy__(self):
        return self

    # concretisation protocol
    def _sym_term(self):
        return self.e

    def _sym_const(self, k):
        return z3.IntVal(k)

    def _sym_val(self, zv):
        return zv.as_long()


# ----------------------------------------------------------------------------- formula helpers

def term(x):
    """z3 term (Int or Bool) of a python value or proxy"""
    if isinstance(x, SymInt):
        return x.e
    if isinstance(x, SymBool):
        return x.e
    if isinstance(x, bool):
        return z3.BoolVal(x)
    if isinstance(x, int):
        return z3.IntVal(x)
    if isinstance(x, z3.ExprRef):
        return x
    raise TypeError(f"no z3 term for {type(x).__name__}")


def EQ(a, b):
    """z3 formula 'a equals b' for ints / proxies / None / tuples / lists (structural)"""
    if a is None or b is None:
        return z3.BoolVal(a is None and b is None)
    if isinstance(a, (list, tuple)) or isinstance(b, (list, tuple)):
        if not (isinstance(a, (list, tuple)) and isinstance(b, (list, tuple))) or len(a) != len(b):
            return z3.BoolVal(False)
        return AND(*[EQ(x, y) for x, y in zip(a, b)])
    if isinstance(a, (SymBool, bool)) and isinstance(b, (SymBool, bool)):
        return liftb(a) == liftb(b)
    if isinstance(a, (int, SymBool)) and isinstance(b, (int, SymBool)):
        ta = lift(int(a) if isinstance(a, SymBool) else a)
        tb = lift(int(b) if isinstance(b, SymBool) else b)
        return ta == tb
    if isinstance(a, z3.ExprRef) or isinstance(b, z3.ExprRef):
        return term(a) == term(b)
    return z3.BoolVal(a == b)


def AND(*xs):
    xs = [x if z3.is_bool(x) else liftb(x) for x in xs]
    if not xs:
        return z3.BoolVal(True)
    return z3.And(*xs)


def OR(*xs):
    xs = [x if z3.is_bool(x) else liftb(x) for x in xs]
    if not xs:
        return z3.BoolVal(False)
    return z3.Or(*xs)


def NOT(x):
    return z3.Not(x if z3.is_bool(x) else liftb(x))


def IMPLIES(a, b):
    return z3.Implies(a if z3.is_bool(a) else liftb(a), b if z3.is_bool(b) else liftb(b))


def ITE(c, a, b):
    """value-level if-then-else without forking"""
    if isinstance(c, bool):
        return a if c else b
    ce = liftb(c)
    return mk(z3.If(ce, lift(a), lift(b)))


class Ob:
    """one obligation of a path"""
    __slots__ = ("label", "expr", "site", "info")

    def __init__(self, label: str, expr, site: Optional[dict] = None, info: Any = None):
        self.label = label
        self.expr = expr if z3.is_bool(expr) else liftb(expr)
        self.site = site or {}
        self.info = info


# ----------------------------------------------------------------------------- inputs

class SymInputs:
    """Symbolic-mode input source.  Names are stable across re-executions of the body."""
    symbolic = True

    def __init__(self, ex: "Explorer"):
        self.ex = ex
        self.vars: Dict[str, Any] = {}
        self.fixed: Dict[str, int] = {}

    def int(self, name: str, lo: Optional[int] = None, hi: Optional[int] = None) -> SymInt:
        assert name not in self.vars, f"duplicate input {name}"
        v = z3.Int(name)
        self.vars[name] = v
        if lo is not None:
            self.ex.assume_expr(v >= lo)
        if hi is not None:
            self.ex.assume_expr(v <= hi)
        return SymInt(v)

    def bit(self, name: str) -> SymInt:
        return self.int(name, 0, 1)

    def choice(self, name: str, n: int) -> int:
        """concrete value in range(n), explored exhaustively by forking"""
        if n == 1:
            return 0
        assert name not in self.vars and name not in self.fixed, f"duplicate input {name}"
        k = self.ex.enum(n)
        self.fixed[name] = k            # recorded so that the counterexample / replay carries the choice
        return k

    def pick(self, name: str, options: Sequence):
        return options[self.choice(name, len(options))]

    def flag(self, name: str) -> bool:
        return bool(self.choice(name, 2))

    def values_from_model(self, model) -> Dict[str, int]:
        out = dict(self.fixed)
        for k, v in self.vars.items():
            val = model.eval(v, model_completion=True)
            if z3.is_int_value(val):
                out[k] = val.as_long()
            elif z3.is_true(val) or z3.is_false(val):
                out[k] = bool(z3.is_true(val))
            elif z3.is_rational_value(val):
                out[k] = [val.numerator_as_long(), val.denominator_as_long()]
            elif z3.is_bv_value(val):
                out[k] = val.as_long()
            elif z3.is_algebraic_value(val):
                a = val.approx(30)
                out[k] = [a.numerator_as_long(), a.denominator_as_long()]
            else:
                out[k] = str(val)
        return out


class ConcInputs:
    """Concrete-mode input source used for replays: plain ints, no proxies."""
    symbolic = False

    def __init__(self, values: Dict[str, Any]):
        self.values = dict(values)
        self.used: Dict[str, Any] = {}

    def int(self, name, lo=None, hi=None):
        v = self.values.get(name)
        if v is None:
            v = lo if lo is not None else 0
        self.used[name] = v
        return v

    def bit(self, name):
        return self.int(name, 0, 1)

    def choice(self, name, n):
        return self.int(name, 0, n - 1)

    def pick(self, name, options):
        return options[self.choice(name, len(options))]

    def flag(self, name):
        return bool(self.choice(name, 2))


# ----------------------------------------------------------------------------- explorer

class Stats:
    def __init__(self):
        self.paths = 0
        self.aborted = 0
        self.forks = 0
        self.q_sat = 0
        self.q_unsat = 0
        self.q_unknown = 0
        self.solver_s = 0.0
        self.obligations = 0
        self.discharged = 0
        self.cex = 0

    def add(self, o: "Stats"):
        for k, v in o.__dict__.items():
            setattr(self, k, getattr(self, k) + v)

    def as_dict(self):
        d = dict(self.__dict__)
        d["solver_s"] = round(d["solver_s"], 3)
        return d


class Cex:
    """a counterexample: concrete inputs that falsify one obligation on one path"""

    def __init__(self, label, site, values, info=None, decisions=None):
        self.label = label
        self.site = site
        self.values = values
        self.info = info
        self.decisions = decisions

    def as_dict(self):
        return {"label": self.label, "site": self.site, "values": self.values, "info": self.info}


PATH_TIMEOUT_S = 60


class _path_alarm:
    """SIGALRM watchdog around one execution of the body: real code that loops forever inside a single path (no instruction-step
    bound applies there) is aborted as an inconclusive path instead of hanging the check.  Main thread only; nested use and
    platforms without setitimer degrade to no watchdog."""

    def __init__(self, seconds):
        self.seconds = seconds
        self.armed = False

    def __enter__(self):
        import signal
        import threading
        if not self.seconds or threading.current_thread() is not threading.main_thread() or not hasattr(signal, "setitimer"):
            return self
        if signal.getitimer(signal.ITIMER_REAL)[0] > 0:
            return self          # an outer watchdog is already running

        def on_alarm(signum, frame):
            raise PathAbort(f"one path of the code under check ran longer than {self.seconds} s")
        self.old = signal.signal(signal.SIGALRM, on_alarm)
        signal.setitimer(signal.ITIMER_REAL, self.seconds)
        self.armed = True
        return self

    def __exit__(self, *a):
        if self.armed:
            import signal
            signal.setitimer(signal.ITIMER_REAL, 0)
            signal.signal(signal.SIGALRM, self.old)
        return False


class Explorer:
    """Depth-first exploration by re-execution.  A decision prefix entry is
    ("b", value, cond) for a solver-decided branch or ("e", value, n) for an enumeration point."""

    def __init__(self, timeout_ms: int = 20000, max_paths: int = 200000, max_concretize: int = 64,
                 max_depth: int = 4000, branch_timeout_ms: int = 3000, budget_s: float = 1800.0, max_cex: Optional[int] = None):
        self.path_timeout_s = PATH_TIMEOUT_S      # wall-clock limit of ONE path of the code under check (a change can make it loop forever)
        self.max_cex = max_cex      # stop exploring once this many counterexamples were found (a broken build yields thousands)
        self.s = z3.Solver()
        self.s.set("timeout", branch_timeout_ms)
        self.timeout_ms = timeout_ms
        self.branch_timeout_ms = branch_timeout_ms
        self.budget_s = budget_s
        self.t_start = time.time()
        self.stats = Stats()
        self.max_paths = max_paths
        self.max_concretize = max_concretize
        self.max_depth = max_depth
        self.cexs: List[Cex] = []
        self.aborts: List[str] = []
        self.unknowns: List[str] = []
        self.samples: List[dict] = []
        self.path_conditions: List[Any] = []
        self.keep_path_conditions = False
        self.inputs: Optional[SymInputs] = None
        self.unknown_branches = 0
        self._model = None

    # --- solver access
    def check(self, *extra):
        t = time.time()
        r = self.s.check(*extra)
        self.stats.solver_s += time.time() - t
        rs = str(r)
        if rs == "sat":
            self.stats.q_sat += 1
        elif rs == "unsat":
            self.stats.q_unsat += 1
        else:
            self.stats.q_unknown += 1
        return rs

    def _model_says(self, e):
        """True/False if the cached model of the path condition decides e, else None"""
        m = self._model
        if m is None:
            return None
        v = m.eval(e, model_completion=True)
        if z3.is_true(v):
            return True
        if z3.is_false(v):
            return False
        return None

    def assume_expr(self, e):
        self.s.add(e)
        self._pc.append(e)
        if self._model is not None and self._model_says(e) is not True:
            self._model = None

    def assume(self, cond):
        """restrict the path to cond (a precondition). Infeasible paths are dropped silently."""
        if isinstance(cond, bool):
            if not cond:
                raise Infeasible()
            return
        e = liftb(cond)
        self.assume_expr(e)
        if self._model is not None:
            return
        r = self.check()
        if r == "unsat":
            raise Infeasible()
        if r == "sat":
            self._model = self.s.model()

    def _feasible(self, cond):
        """(can_true, model_true, can_false, model_false); unknown counts as feasible (explored; any counterexample
        found later is a solver model and is replayed, so this cannot create false alarms)"""
        said = self._model_says(cond)
        out = {}
        for side in (True, False):
            if said is side:
                out[side] = (True, self._model)
                continue
            r = self.check(cond if side else z3.Not(cond))
            if r == "sat":
                out[side] = (True, self.s.model())
            elif r == "unsat":
                out[side] = (False, None)
            else:
                self.unknown_branches += 1
                out[side] = (True, None)
        return out

    def decide(self, cond) -> bool:
        if self.pos >= self.max_depth:
            raise PathAbort("decision depth bound")
        if self.pos < len(self.prefix):
            kind, v, rec = self.prefix[self.pos]
            if kind != "b" or (rec is not None and not rec.eq(cond)):
                raise PathAbort("non-deterministic re-execution (branch condition changed)")
            self.pos += 1
            self.assume_expr(cond if v else z3.Not(cond))
            return v
        f = self._feasible(cond)
        can_t, can_f = f[True][0], f[False][0]
        if can_t and can_f:
            v = True
            self.open.append((len(self.prefix), ("b", False, cond)))
            self.stats.forks += 1
        elif can_t:
            v = True
        elif can_f:
            v = False
        else:
            raise Infeasible()
        self.prefix.append(("b", v, cond))
        self.pos += 1
        self.s.add(cond if v else z3.Not(cond))
        self._pc.append(cond if v else z3.Not(cond))
        self._model = f[v][1]
        return v

    def enum(self, n: int) -> int:
        """enumeration point: every value in range(n) is explored (no solver involved)"""
        if n <= 1:
            return 0
        if self.pos < len(self.prefix):
            kind, v, rec = self.prefix[self.pos]
            if kind != "e" or rec != n:
                raise PathAbort("non-deterministic re-execution (enumeration point changed)")
            self.pos += 1
            return v
        for alt in range(n - 1, 0, -1):
            self.open.append((len(self.prefix), ("e", alt, n)))
        self.stats.forks += n - 1
        self.prefix.append(("e", 0, n))
        self.pos += 1
        return 0

    def concretize(self, x, max_values: int = 64) -> int:
        """fork over the feasible values of a symbolic int (at most max_values, else abort).
        Works for every proxy implementing _sym_term() / _sym_const(k) / _sym_val(z3val)."""
        if not hasattr(x, "_sym_term"):
            return x
        t = x._sym_term()
        n = 0
        while True:
            if self.pos < len(self.prefix):
                kind, v, rec = self.prefix[self.pos]
                nums = [rec.arg(i) for i in range(rec.num_args())
                        if z3.is_int_value(rec.arg(i)) or z3.is_bv_value(rec.arg(i))] \
                    if kind == "b" and rec is not None and z3.is_eq(rec) else []
                if not nums:
                    raise PathAbort("concretize replay without record")
                k = x._sym_val(nums[-1])
            else:
                if self._model is None:
                    r = self.check()
                    if r not in ("sat", "unsat"):
                        # the short branch timeout can be hit on a loaded machine: one retry with the long (discharge) timeout
                        self.s.set("timeout", self.timeout_ms)
                        try:
                            r = self.check()
                        finally:
                            self.s.set("timeout", self.branch_timeout_ms)
                    if r == "unsat":
                        raise Infeasible()
                    if r != "sat":
                        raise PathAbort("concretize: solver unknown")
                    self._model = self.s.model()
                k = x._sym_val(self._model.eval(t, model_completion=True))
            if self.decide(t == x._sym_const(k)):
                return k
            n += 1
            if n > max_values:
                raise PathAbort(f"concretize: more than {max_values} values")

    # --- exploration
    def run(self, body: Callable[[SymInputs], Optional[List[Ob]]], sample_every: int = 0):
        prev = _Ctx.cur
        _Ctx.cur = self
        try:
            todo: List[list] = [[]]
            while todo:
                if self.stats.paths + self.stats.aborted >= self.max_paths:
                    self.aborts.append("path bound reached with open branches")
                    break
                if time.time() - self.t_start > self.budget_s:
                    self.aborts.append("time budget exceeded with open branches")
                    break
                if self.max_cex is not None and len(self.cexs) >= self.max_cex:
                    self.aborts.append("counterexample cap reached with open branches")
                    break
                prefix = todo.pop()
                self.prefix = list(prefix)
                self.pos = 0
                self.open = []
                self._pc = []
                self._model = None
                self.s.push()
                self.inputs = SymInputs(self)
                try:
                    with _path_alarm(self.path_timeout_s):
                        obs = body(self.inputs)
                    self.stats.paths += 1
                    if self.keep_path_conditions:
                        self.path_conditions.append(z3.And(*self._pc) if self._pc else z3.BoolVal(True))
                    self._discharge(obs or [])
                except Infeasible:
                    pass
                except PathAbort as e:
                    self.stats.aborted += 1
                    self.aborts.append(str(e))
                    if "ran longer than" in str(e):
                        self._path_timeouts = getattr(self, "_path_timeouts", 0) + 1
                        if self._path_timeouts >= 3:
                            self.aborts.append("three paths hit the per-path time limit; exploration stopped with open branches")
                            break
                finally:
                    self.s.pop()
                for i, alt in self.open:
                    todo.append(self.prefix[:i] + [alt])
        finally:
            _Ctx.cur = prev
        return self

    def _small_model_retry(self, neg):
        """NIA / hard query came back unknown: look for a counterexample among small input values
        (sat is sound; a failure to find one leaves the obligation undischarged = inconclusive)"""
        for bound in (4, 64):
            self.s.push()
            try:
                for v in self.inputs.vars.values():
                    if z3.is_int(v):
                        self.s.add(v >= -bound, v <= bound)
                r = self.check(neg)
                if r == "sat":
                    return self.s.model()
            finally:
                self.s.pop()
        return None

    def _discharge(self, obs: List[Ob]):
        if not obs:
            return
        self.stats.obligations += len(obs)
        self.s.set("timeout", self.timeout_ms)
        try:
            self._discharge2(obs)
        finally:
            self.s.set("timeout", self.branch_timeout_ms)

    def _discharge2(self, obs: List[Ob]):
        trivial = [o for o in obs if z3.is_true(z3.simplify(o.expr))]
        rest = [o for o in obs if not z3.is_true(z3.simplify(o.expr))]
        self.stats.discharged += len(trivial)
        if not rest:
            return
        r = self.check(z3.Not(z3.And(*[o.expr for o in rest])))
        if r == "unsat":
            self.stats.discharged += len(rest)
            return
        for o in rest:
            neg = z3.Not(o.expr)
            m = None
            if len(rest) == 1 and r == "sat":
                m = self.s.model()
                r1 = "sat"
            else:
                r1 = self.check(neg)
                if r1 == "sat":
                    m = self.s.model()
            if r1 == "unknown":
                m = self._small_model_retry(neg)
                if m is not None:
                    r1 = "sat"
            if r1 == "unsat":
                self.stats.discharged += 1
            elif r1 == "sat":
                self.stats.cex += 1
                self.cexs.append(Cex(o.label, o.site, self.inputs.values_from_model(m), o.info, None))
            else:
                self.unknowns.append(o.label)

    def completeness_gap(self, pre=None) -> str:
        """check pre ∧ ¬(pc_1 ∨ ... ∨ pc_n) is unsat (needs keep_path_conditions)"""
        s = z3.Solver()
        s.set("timeout", 60000)
        if pre is not None:
            s.add(pre)
        s.add(z3.Not(z3.Or(*self.path_conditions)) if self.path_conditions else z3.BoolVal(True))
        return str(s.check())


def run_concrete(body: Callable, values: Dict[str, Any]) -> List[Tuple[str, bool, dict, Any]]:
    """replay: run the same body on plain ints; returns [(label, holds, site, info)]"""
    inp = ConcInputs(values)
    obs = body(inp) or []
    out = []
    for o in obs:
        e = z3.simplify(o.expr)
        if z3.is_true(e):
            ok = True
        elif z3.is_false(e):
            ok = False
        else:
            s = z3.Solver()
            s.add(z3.Not(e))
            ok = str(s.check()) == "unsat"
        out.append((o.label, ok, o.site, o.info))
    return out
