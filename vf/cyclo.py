"""cyclo -- exact quantum semantics in the cyclotomic field Q(zeta), zeta = e^{i pi/32} (zeta^32 = -1).

All constant angles netqasm emits are multiples of pi/16, so every gate matrix entry lies in Q(zeta).
An element is a length-32 vector of Fractions (coordinates on 1, zeta, ..., zeta^31).  Operators on n
qubits are exact matrices over Q(zeta) (numpy object arrays of shape (2^n, 2^n, 32)).  "For arbitrary
input states" is decided by z3 over linear real arithmetic: all 2^n * 32 coordinates of the input
state are free Reals, both operators are applied coordinate-wise (multiplying by a constant of Q(zeta)
is Q-linear) and z3 is asked for a state on which they differ, for each candidate global phase
zeta^k.  {zeta^j} is a Q-basis and z3 models are rational, so a model is a genuine state in Q(zeta)^N
on which the two linear maps differ; two linear maps that agree on Q(zeta)^N agree on C^N.

The operator semantics of the gates is written here from the NetQASM paper's definitions
(R_a(theta) = cos(theta/2) I - i sin(theta/2) sigma_a, controlled rotation = |0><0| (x) R(theta) +
|1><1| (x) R(-theta)), NOT from the to_matrix() methods of the code under test.
"""
import time
from fractions import Fraction as F

import numpy as np
import z3

D = 32
N = 64

# Representation: an element of Q(zeta) that occurs here always lies in Z[zeta]/2^e.  An operator is an `Op`: an integer
# numpy array A of shape (rows, cols, 32) (int64; magnitudes are checked) and ONE exponent e, value = A / 2^e.
# Products are negacyclic convolutions of integer vectors (exact), the exponent is reduced after every gate.

_LIMIT = 1 << 40


def zpow_i(k):
    k %= N
    v = np.zeros(D, dtype=np.int64)
    if k < D:
        v[k] = 1
    else:
        v[k - D] = -1
    return v


def cmul_i(a, b):
    c = np.convolve(a, b)
    out = c[:D].copy()
    out[:D - 1] -= c[D:]
    return out


class El:
    """element of Z[zeta]/2^e"""
    __slots__ = ("v", "e")

    def __init__(self, v, e=0):
        self.v = np.asarray(v, dtype=np.int64)
        self.e = e

    def __mul__(self, o):
        return El(cmul_i(self.v, o.v), self.e + o.e)

    def __add__(self, o):
        e = max(self.e, o.e)
        return El(self.v * (1 << (e - self.e)) + o.v * (1 << (e - o.e)), e)

    def __neg__(self):
        return El(-self.v, self.e)

    def __sub__(self, o):
        return self + (-o)

    def half(self):
        return El(self.v, self.e + 1)

    def is_zero(self):
        return not self.v.any()

    def fractions(self):
        return [F(int(x), 1 << self.e) for x in self.v]


def zpow(k):
    return El(zpow_i(k))


ZERO = El(np.zeros(D, dtype=np.int64))
ONE = zpow(0)
IM = zpow(16)


def ccos(k):
    """cos(k pi/32)"""
    return (zpow(k) + zpow(-k)).half()


def csin(k):
    """sin(k pi/32) = -i (z^k - z^-k)/2"""
    return ((zpow(k) - zpow(-k)).half()) * (-IM)


def to_complex(x):
    if isinstance(x, El):
        v, e = x.v, x.e
    else:
        v, e = x
    ang = np.exp(1j * np.pi * np.arange(D) / 32)
    return complex((v.astype(float) * ang).sum() / (2.0 ** e))


SQRT1_2 = ccos(8)


class Op:
    """operator / gate: integer array A (r, c, 32) and exponent e; value A / 2^e"""

    def __init__(self, A, e):
        self.A = A
        self.e = e

    @property
    def shape(self):
        return self.A.shape

    def copy(self):
        return Op(self.A.copy(), self.e)

    def normalize(self):
        while self.e > 0 and not (self.A & 1).any():
            self.A >>= 1
            self.e -= 1
        if np.abs(self.A).max(initial=0) >= _LIMIT:
            raise OverflowError("cyclo: integer magnitude above 2^40")
        return self

    def entry(self, i, j):
        return El(self.A[i, j], self.e)


def mat(rows):
    r, c = len(rows), len(rows[0])
    e = max(x.e for row in rows for x in row)
    A = np.zeros((r, c, D), dtype=np.int64)
    for i in range(r):
        for j in range(c):
            x = rows[i][j]
            A[i, j, :] = x.v * (1 << (e - x.e))
    return Op(A, e).normalize()


I2 = mat([[ONE, ZERO], [ZERO, ONE]])
X = mat([[ZERO, ONE], [ONE, ZERO]])
Y = mat([[ZERO, -IM], [IM, ZERO]])
Z = mat([[ONE, ZERO], [ZERO, -ONE]])
H = mat([[SQRT1_2, SQRT1_2], [SQRT1_2, -SQRT1_2]])
K = mat([[SQRT1_2, (-IM) * SQRT1_2], [IM * SQRT1_2, -SQRT1_2]])     # (Y + Z)/sqrt(2)
S = mat([[ONE, ZERO], [ZERO, IM]])
T = mat([[ONE, ZERO], [ZERO, zpow(8)]])
PAULI = {"x": X, "y": Y, "z": Z}
FIXED = {"x": X, "y": Y, "z": Z, "h": H, "k": K, "s": S, "t": T}


def half_angle_index(n, d):
    """theta = n pi / 2^d ; theta/2 = (n * 2^(4-d)) pi/32 ; needs d <= 4 (or n divisible accordingly)"""
    if d <= 4:
        return n << (4 - d)
    sh = d - 4
    if n % (1 << sh) != 0:
        raise ValueError("angle outside Q(zeta_64)")
    return n >> sh


def rot(axis, n, d, sign=1):
    """R_axis(sign * n pi / 2^d) = cos(t/2) I - i sin(t/2) sigma"""
    k = sign * half_angle_index(n, d)
    c, s = ccos(k), csin(k)
    mis = (-IM) * s
    P = PAULI[axis]
    rows = [[(c if i == j else ZERO) + mis * P.entry(i, j) for j in range(2)] for i in range(2)]
    return mat(rows)


def _mulvec(g, row):
    """g: int vector (32) ; row: (cols, 32) -> (cols, 32) products"""
    if not g.any():
        return np.zeros_like(row)
    out = np.empty_like(row)
    for col in range(row.shape[0]):
        out[col] = cmul_i(g, row[col]) if row[col].any() else 0
    return out


def identity(n):
    dim = 1 << n
    A = np.zeros((dim, dim, D), dtype=np.int64)
    for i in range(dim):
        A[i, i, 0] = 1
    return Op(A, 0)


def _pair(U, G, b0, b1, out):
    r0, r1 = U.A[b0], U.A[b1]
    out[b0] = _mulvec(G.A[0, 0], r0) + _mulvec(G.A[0, 1], r1)
    out[b1] = _mulvec(G.A[1, 0], r0) + _mulvec(G.A[1, 1], r1)


def apply1(U, n, q, G):
    """left-multiply the n-qubit operator U by the 1-qubit gate G on qubit q (q = 0 is the most significant bit)"""
    dim = 1 << n
    bit = 1 << (n - 1 - q)
    out = np.empty_like(U.A)
    for b in range(dim):
        if b & bit:
            continue
        _pair(U, G, b, b | bit, out)
    return Op(out, U.e + G.e).normalize()


def apply_ctrl(U, n, c, t, G0, G1):
    """left-multiply by |0><0|_c (x) G0_t + |1><1|_c (x) G1_t"""
    dim = 1 << n
    cb = 1 << (n - 1 - c)
    tb = 1 << (n - 1 - t)
    e = max(G0.e, G1.e)
    G0 = Op(G0.A * (1 << (e - G0.e)), e)
    G1 = Op(G1.A * (1 << (e - G1.e)), e)
    out = np.empty_like(U.A)
    for b in range(dim):
        if b & tb:
            continue
        _pair(U, G1 if (b & cb) else G0, b, b | tb, out)
    return Op(out, U.e + e).normalize()


def cnot(U, n, c, t):
    return apply_ctrl(U, n, c, t, I2, X)


def cphase(U, n, c, t):
    return apply_ctrl(U, n, c, t, I2, Z)


def crot(U, n, c, t, axis, num, den):
    """NetQASM controlled rotation: |0><0| (x) R(theta) + |1><1| (x) R(-theta)"""
    return apply_ctrl(U, n, c, t, rot(axis, num, den, 1), rot(axis, num, den, -1))


def project(U, n, q, outcome):
    """left-multiply by the (un-normalised) projector |outcome><outcome| on qubit q"""
    dim = 1 << n
    bit = 1 << (n - 1 - q)
    out = U.A.copy()
    for b in range(dim):
        if bool(b & bit) != bool(outcome):
            out[b] = 0
    return Op(out, U.e)


def mmul(A, B):
    r, m, c = A.shape[0], A.shape[1], B.shape[1]
    out = np.zeros((r, c, D), dtype=np.int64)
    for i in range(r):
        for j in range(c):
            for k in range(m):
                if A.A[i, k].any() and B.A[k, j].any():
                    out[i, j] += cmul_i(A.A[i, k], B.A[k, j])
    return Op(out, A.e + B.e).normalize()


def times_zeta(M, k):
    z = zpow_i(k)
    out = np.zeros_like(M.A)
    for i in range(M.shape[0]):
        for j in range(M.shape[1]):
            if M.A[i, j].any():
                out[i, j] = cmul_i(z, M.A[i, j])
    return Op(out, M.e)


def same_op(U, V):
    e = max(U.e, V.e)
    return np.array_equal(U.A * (1 << (e - U.e)), V.A * (1 << (e - V.e)))


def zero_op(r, c):
    return Op(np.zeros((r, c, D), dtype=np.int64), 0)


def set_entry(M, i, j, el: El):
    """M[i, j] := el (rescaling the operator's common exponent if needed)"""
    if el.e > M.e:
        M.A *= (1 << (el.e - M.e))
        M.e = el.e
    M.A[i, j] = el.v * (1 << (M.e - el.e))


# ----------------------------------------------------------------------------- solver side

class LraStats:
    def __init__(self):
        self.queries = 0
        self.sat = 0
        self.unsat = 0
        self.unknown = 0
        self.solver_s = 0.0


def apply_to_free_state(M, avars):
    """rows of M applied to the free input state: list (per output basis state) of 32 z3 linear terms (scaled by 2^e:
    the common positive factor does not matter for (dis)equalities between operators brought to the same exponent).
    avars[b][j] = z3 Real for coordinate j of input amplitude b"""
    rows, cols = M.shape[0], M.shape[1]
    out = []
    for i in range(rows):
        coords = [[] for _ in range(D)]
        for b in range(cols):
            m = M.A[i, b]
            if not m.any():
                continue
            for i1 in np.nonzero(m)[0]:
                c = int(m[i1])
                for j in range(D):
                    k = int(i1) + j
                    if k < D:
                        coords[k].append(c * avars[b][j])
                    else:
                        coords[k - D].append(-c * avars[b][j])
        out.append([z3.Sum(t) if t else z3.RealVal(0) for t in coords])
    return out


def _same_exp(U, V):
    e = max(U.e, V.e)
    return Op(U.A * (1 << (e - U.e)), e), Op(V.A * (1 << (e - V.e)), e)


def quick_phase_candidates(U, V):
    """exact pre-computation (no solver): phases k with U == zeta^k V; used only to ORDER the solver queries"""
    U, V = _same_exp(U, V)
    return [k for k in range(N) if np.array_equal(U.A, times_zeta(V, k).A)]


def equal_up_to_phase_fast(U, V, stats=None, timeout_ms=60000, input_mask=None):
    """Decide with z3 (QF_LRA) whether U = zeta^k V for some k as maps on the free input states (input_mask: input basis
    indices that are free, the others are zero).  Returns (k, None) if equal, (None, witness_state) otherwise (witness for k = 0,
    as Fractions), (None, "unknown") on a solver unknown.  The phase found by exact comparison is asked first."""
    stats = stats or LraStats()
    U, V = _same_exp(U, V)
    cols = U.shape[1]
    free = list(range(cols)) if input_mask is None else list(input_mask)
    if input_mask is None:
        cands = quick_phase_candidates(U, V)
    else:
        Um, Vm = U.copy(), V.copy()
        for b in range(cols):
            if b not in free:
                Um.A[:, b] = 0
                Vm.A[:, b] = 0
        cands = quick_phase_candidates(Um, Vm)
    avars = [[z3.Real(f"a{b}_{j}") for j in range(D)] for b in range(cols)]
    s = z3.Solver()
    s.set("timeout", timeout_ms)
    for b in range(cols):
        if b not in free:
            for j in range(D):
                s.add(avars[b][j] == 0)
    lhs = apply_to_free_state(U, avars)

    def ask(k):
        rhs = apply_to_free_state(times_zeta(V, k), avars)
        s.push()
        s.add(z3.Or(*[lhs[i][j] != rhs[i][j] for i in range(U.shape[0]) for j in range(D)]))
        t = time.time()
        r = str(s.check())
        stats.solver_s += time.time() - t
        stats.queries += 1
        m = s.model() if r == "sat" else None
        s.pop()
        key = r if r in ("sat", "unsat") else "unknown"
        setattr(stats, key, getattr(stats, key) + 1)
        return r, m

    tried = set()
    for k in cands[:1]:
        r, m = ask(k)
        tried.add(k)
        if r == "unsat":
            return k, None
        if r != "sat":
            return None, "unknown"
    witness = None
    for k in range(N):
        if k in tried:
            continue
        r, m = ask(k)
        if r == "unsat":
            return k, None
        if r != "sat":
            return None, "unknown"
        if witness is None:
            witness = [[_q(m.eval(avars[b][j], model_completion=True)) for j in range(D)] for b in range(cols)]
    return None, witness


equal_up_to_phase = equal_up_to_phase_fast


def _q(v):
    return F(v.numerator_as_long(), v.denominator_as_long())


def to_numpy(M):
    out = np.zeros((M.shape[0], M.shape[1]), dtype=complex)
    for i in range(M.shape[0]):
        for j in range(M.shape[1]):
            out[i, j] = to_complex((M.A[i, j], M.e))
    return out
