#!/usr/bin/env python3
"""validate MANIFEST.json and evidence/*.json against the schemas in /root/.vp"""
import glob, json, sys
import jsonschema
ok = True
m = json.load(open('/verif/MANIFEST.json'))
try:
    jsonschema.validate(m, json.load(open('/root/.vp/MANIFEST.schema.json'))); print("MANIFEST ok")
except Exception as e:
    ok = False; print("MANIFEST INVALID", str(e)[:300])
es = json.load(open('/root/.vp/EVIDENCE.schema.json'))
for p in sorted(glob.glob('/verif/evidence/*.json')):
    try:
        jsonschema.validate(json.load(open(p)), es); print("ok", p)
    except Exception as e:
        ok = False; print("INVALID", p, str(e)[:300])
sys.exit(0 if ok else 1)
