#!/bin/sh
# usage: tools/run_all.sh [quick|thorough] [Cxx ...] -- run the registered command of every (or the named) check one after the other on the
# current /repo tree, print one summary line each and the wall time; used to size the tiers and to refresh evidence/ before a commit.
TIER=${1:-quick}; shift
HERE=$(cd "$(dirname "$0")/.." && pwd)
IDS=${*:-C01 C02 C03 C04 C05 C06 C07 C08 C09 C10 C11 C12 C13 C14 C15 C16 C17 C18 C19 C20}
for c in $IDS; do
  s=$(date +%s)
  out=$("$HERE/bin/check" "$c" --tier "$TIER" 2>/dev/null); rc=$?
  e=$(date +%s)
  echo "$c tier=$TIER rc=$rc wall=$((e-s))s | $(echo "$out" | grep -E "^$c \[" | tail -1 | cut -c1-220)"
  echo "$out" | grep -E "^(VIOLATION|INCONCLUSIVE)" | head -5 | cut -c1-300
done
