#!/bin/sh
# usage: tools/run_all.sh [quick|thorough] [Cxx ...] -- run the registered command of every (or the named) check one after the other on the
# current /repo tree, print one summary line each and record wall time + exit code in tier_times.json (quoted in DESIGN.md 6.5).
TIER=${1:-quick}; shift
HERE=$(cd "$(dirname "$0")/.." && pwd)
IDS=${*:-C01 C02 C03 C04 C05 C06 C07 C08 C09 C10 C11 C12 C13 C14 C15 C16 C17 C18 C19 C20}
for c in $IDS; do
  s=$(date +%s)
  out=$("$HERE/bin/check" "$c" --tier "$TIER" 2>/dev/null); rc=$?
  e=$(date +%s)
  line=$(echo "$out" | grep -E "^$c \[" | tail -1 | cut -c1-220)
  echo "$c tier=$TIER rc=$rc wall=$((e-s))s | $line"
  echo "$out" | grep -E "^(VIOLATION|INCONCLUSIVE)" | head -5 | cut -c1-300
  python3 - "$HERE/tier_times.json" "$c" "$TIER" "$rc" "$((e-s))" "$line" <<'PY'
import json, sys, time, subprocess
p, c, tier, rc, wall, line = sys.argv[1:7]
try:
    d = json.load(open(p))
except Exception:
    d = {}
head = subprocess.run("git -C /repo rev-parse --short HEAD", shell=True, capture_output=True, text=True).stdout.strip()
d.setdefault(c, {})[tier] = {"exit": int(rc), "wall_s": int(wall), "summary": line, "repo_head": head, "when": time.strftime("%Y-%m-%dT%H:%MZ", time.gmtime())}
json.dump(d, open(p, "w"), indent=1, sort_keys=True)
PY
done
