#!/usr/bin/env python3
"""Detection matrix: apply every seeded change under /verif/seeded to /repo (one at a time, always undone), run the check of its
property (quick tier; thorough for the ones listed in meta.json "needs_tier"), and record the verdict.

usage: tools/matrix.py [--only C05,C18] [--tier quick|thorough] [--out seeded/MATRIX.json]

Also confirms, per seed, that the patch still applies to /repo HEAD and (where a demo exists) that the demo passes on the clean
tree.  Never leaves /repo patched: the working tree is restored in a finally block and verified clean at the end.
"""
import argparse
import json
import os
import subprocess
import sys
import time

ROOT = os.path.dirname(os.path.dirname(os.path.abspath(__file__)))
REPO = "/repo"


def sh(cmd, timeout=None, cwd=None):
    try:
        p = subprocess.run(cmd, shell=True, capture_output=True, text=True, timeout=timeout, cwd=cwd)
        return p.returncode, p.stdout + p.stderr
    except subprocess.TimeoutExpired as e:
        return 124, (e.stdout or b"").decode() if isinstance(e.stdout, bytes) else (e.stdout or "")


def clean():
    rc, out = sh("git status --porcelain", cwd=REPO)
    return out.strip() == ""


def main():
    ap = argparse.ArgumentParser()
    ap.add_argument("--only", default="")
    ap.add_argument("--tier", default="quick")
    ap.add_argument("--out", default=os.path.join(ROOT, "seeded", "MATRIX.json"))
    ap.add_argument("--timeout", type=int, default=1500)
    a = ap.parse_args()
    only = set(x for x in a.only.split(",") if x)
    if not clean():
        print("/repo not clean", file=sys.stderr)
        return 9
    head = sh("git rev-parse --short HEAD", cwd=REPO)[1].strip()
    rows = []
    if os.path.exists(a.out):
        old = json.load(open(a.out))
        rows = [r for r in old.get("rows", []) if only and r["seed"].split("-")[0].replace("revert", "") not in only and r["property"] not in only]
    for name in sorted(os.listdir(os.path.join(ROOT, "seeded"))):
        d = os.path.join(ROOT, "seeded", name)
        if not os.path.isfile(os.path.join(d, "patch.diff")):
            continue
        meta = json.load(open(os.path.join(d, "meta.json")))
        pid = meta["property"]
        if only and pid not in only:
            continue
        checks = meta.get("checked_by", [pid])
        tier = meta.get("needs_tier", a.tier)
        row = {"seed": name, "property": pid, "kind": meta.get("kind", "seeded"), "tier": tier, "checks": {}}
        patch = os.path.join(d, "patch.diff")
        rc, out = sh(f"git apply --check {patch}", cwd=REPO)
        row["applies"] = rc == 0
        if rc != 0:
            row["verdict"] = "PATCH-DOES-NOT-APPLY"
            rows.append(row)
            print(name, row["verdict"], flush=True)
            continue
        try:
            sh(f"git apply {patch}", cwd=REPO)
            caught = False
            for c in checks:
                t = time.time()
                rc, out = sh(f"{ROOT}/bin/check {c} --tier {tier}", timeout=a.timeout)
                viol = [l for l in out.splitlines() if l.startswith("VIOLATION")]
                row["checks"][c] = {"exit": rc, "violations": len(viol), "wall_s": round(time.time() - t, 1)}
                caught = caught or (rc == 1 and bool(viol))
            row["verdict"] = "caught" if caught else "MISSED"
        finally:
            sh("git checkout -- .", cwd=REPO)
        rows.append(row)
        print(name, row["verdict"], row["checks"], flush=True)
    rows.sort(key=lambda r: r["seed"])
    json.dump({"repo_head": head, "generated": time.strftime("%Y-%m-%dT%H:%M:%SZ", time.gmtime()), "rows": rows}, open(a.out, "w"), indent=1)
    missed = [r["seed"] for r in rows if r["verdict"] != "caught"]
    print(f"{len(rows)} seeds, {len(rows) - len(missed)} caught; not caught: {missed}")
    if not clean():
        print("/repo NOT CLEAN after the run", file=sys.stderr)
        return 9
    return 0


if __name__ == "__main__":
    sys.exit(main())
