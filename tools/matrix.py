#!/usr/bin/env python3
"""Detection matrix: every seeded change under /verif/seeded is applied to its own scratch worktree of /repo HEAD (under
/tmp, removed afterwards; /repo itself is never touched), the check of its property is run against that tree
(VERIF_REPO / VERIF_OUT, so the evidence of the real tree is not overwritten), and the verdict is recorded.

usage: tools/matrix.py [--only C05,C18] [--tier quick|thorough] [-j 4] [--out seeded/MATRIX.json]

Per seed it also confirms that the patch still applies to /repo HEAD, that the demo (when there is one) passes on the clean
tree and fails with the patch.
"""
import argparse
import concurrent.futures as cf
import json
import os
import shutil
import subprocess
import sys
import time

ROOT = os.path.dirname(os.path.dirname(os.path.abspath(__file__)))
REPO = "/repo"
SCRATCH = "/tmp/verif_matrix"


def sh(cmd, timeout=None, cwd=None, env=None):
    try:
        p = subprocess.run(cmd, shell=True, capture_output=True, text=True, timeout=timeout, cwd=cwd, env=env)
        return p.returncode, p.stdout + p.stderr
    except subprocess.TimeoutExpired:
        return 124, ""


def one(args):
    name, tier_default, timeout = args
    d = os.path.join(ROOT, "seeded", name)
    meta = json.load(open(os.path.join(d, "meta.json")))
    pid = meta["property"]
    checks = meta.get("checked_by", [pid])
    tier = meta.get("needs_tier", tier_default)
    row = {"seed": name, "property": pid, "kind": meta.get("kind", "seeded"), "tier": tier, "checks": {}}
    wt = os.path.join(SCRATCH, name)
    out = os.path.join(SCRATCH, name + "_out")
    sh(f"git worktree remove --force {wt}", cwd=REPO)
    shutil.rmtree(wt, ignore_errors=True)
    rc, o = sh(f"git worktree add -q --detach {wt} HEAD", cwd=REPO)
    if rc != 0:
        row["verdict"] = "HARNESS-ERROR worktree: " + o[-200:]
        return row
    try:
        demo = os.path.join(d, "demo.py")
        if os.path.exists(demo):
            row["demo_clean_exit"] = sh(f"/venv/bin/python {demo}", cwd=wt, timeout=600)[0]
        rc, o = sh(f"git apply {os.path.join(d, 'patch.diff')}", cwd=wt)
        row["applies"] = rc == 0
        if rc != 0:
            row["verdict"] = "PATCH-DOES-NOT-APPLY"
            return row
        if os.path.exists(demo):
            row["demo_patched_exit"] = sh(f"/venv/bin/python {demo}", cwd=wt, timeout=600)[0]
        env = dict(os.environ, VERIF_REPO=wt, VERIF_OUT=out)
        caught = False
        for c in checks:
            t = time.time()
            rc, o = sh(f"{ROOT}/bin/check {c} --tier {tier}", timeout=timeout, env=env)
            viol = [l for l in o.splitlines() if l.startswith("VIOLATION")]
            row["checks"][c] = {"exit": rc, "violations": len(viol), "wall_s": round(time.time() - t, 1)}
            caught = caught or (rc == 1 and bool(viol))
        row["verdict"] = "caught" if caught else "MISSED"
        return row
    finally:
        sh(f"git worktree remove --force {wt}", cwd=REPO)
        shutil.rmtree(wt, ignore_errors=True)
        shutil.rmtree(out, ignore_errors=True)


def main():
    ap = argparse.ArgumentParser()
    ap.add_argument("--only", default="")
    ap.add_argument("--seeds", default="", help="comma separated seed directory names")
    ap.add_argument("--missing", action="store_true", help="only seeds that have no 'caught' row yet")
    ap.add_argument("--tier", default="quick")
    ap.add_argument("-j", type=int, default=4)
    ap.add_argument("--out", default=os.path.join(ROOT, "seeded", "MATRIX.json"))
    ap.add_argument("--timeout", type=int, default=3000)
    a = ap.parse_args()
    only = set(x for x in a.only.split(",") if x)
    seeds = set(x for x in a.seeds.split(",") if x)
    os.makedirs(SCRATCH, exist_ok=True)
    head = sh("git rev-parse --short HEAD", cwd=REPO)[1].strip()
    done = set()
    if a.missing and os.path.exists(a.out):
        done = {r["seed"] for r in json.load(open(a.out)).get("rows", []) if r["verdict"] == "caught"}
    names = []
    for name in sorted(os.listdir(os.path.join(ROOT, "seeded"))):
        d = os.path.join(ROOT, "seeded", name)
        if not os.path.isfile(os.path.join(d, "patch.diff")):
            continue
        pid = json.load(open(os.path.join(d, "meta.json")))["property"]
        if (only and pid not in only) or (seeds and name not in seeds) or name in done:
            continue
        names.append(name)
    rows = []
    if os.path.exists(a.out):
        rows = [r for r in json.load(open(a.out)).get("rows", []) if r["seed"] not in names]
    with cf.ThreadPoolExecutor(max_workers=a.j) as ex:
        for row in ex.map(one, [(n, a.tier, a.timeout) for n in names]):
            rows.append(row)
            print(row["seed"], row["verdict"], row.get("checks"), "demo", row.get("demo_clean_exit"), row.get("demo_patched_exit"), flush=True)
            rows.sort(key=lambda r: r["seed"])
            json.dump({"repo_head": head, "generated": time.strftime("%Y-%m-%dT%H:%M:%SZ", time.gmtime()), "rows": rows}, open(a.out, "w"), indent=1)
    sh("git worktree prune", cwd=REPO)
    shutil.rmtree(SCRATCH, ignore_errors=True)
    missed = [r["seed"] for r in rows if r["verdict"] != "caught"]
    print(f"{len(rows)} seeds in the matrix, {len(rows) - len(missed)} caught; not caught: {missed}")
    return 0


if __name__ == "__main__":
    sys.exit(main())
