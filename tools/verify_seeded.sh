#!/bin/sh
# usage: tools/verify_seeded.sh <Cxx> [srcroot=/tmp/mut] [prefix=m]: confirm every mutation delivered under <srcroot>/<Cxx>/_out/m* in a fresh scratch
# worktree (patch applies, the 171 baseline tests still pass, demo fails with the patch and passes without) and copy the
# confirmed ones to /verif/seeded/<Cxx>-m<i>/
PID=$1; SRC=${2:-/tmp/mut}; PFX=${3:-m}
WT=/tmp/seedverify_$PID
cd /repo && git worktree add -q --detach "$WT" HEAD || exit 9
for d in $SRC/$PID/_out/m*; do
  [ -f "$d/patch.diff" ] || continue
  i=$(basename "$d"); n=$PFX${i#m}
  cd "$WT" && git checkout -q -- . && git clean -qfd
  mkdir -p _out/$i && cp "$d/demo.py" _out/$i/
  /venv/bin/python _out/$i/demo.py >/tmp/seed_$PID_$i.clean.log 2>&1; rc_clean=$?
  if ! git apply "$d/patch.diff" 2>/dev/null; then echo "$PID $i: PATCH DOES NOT APPLY"; continue; fi
  /venv/bin/python _out/$i/demo.py >/tmp/seed_$PID_$i.mut.log 2>&1; rc_mut=$?
  tests=$(/venv/bin/python -m pytest -q -p no:cacheprovider --timeout=900 tests --ignore=tests/test_external 2>&1 | tail -1)
  git checkout -q -- .
  case "$tests" in *"171 passed"*) tok=1;; *) tok=0;; esac
  if [ $rc_clean -eq 0 ] && [ $rc_mut -ne 0 ] && [ $tok -eq 1 ]; then
    dst=/verif/seeded/$PID-$n; mkdir -p $dst
    cp "$d/patch.diff" "$d/demo.py" $dst/
    /venv/bin/python - "$d/meta.json" "$dst/meta.json" "$PID" <<PY
import json,sys
m=json.load(open(sys.argv[1]))
m["property"]=sys.argv[3]
m["confirmed"]={"by":"tools/verify_seeded.sh in a scratch worktree of /repo HEAD","patch_applies":True,
  "baseline_tests_with_patch":"171 passed (pytest tests --ignore=tests/test_external)","demo_exit_clean":0,"demo_exit_with_patch":"non-zero"}
json.dump(m,open(sys.argv[2],"w"),indent=1)
PY
    echo "$PID $i: CONFIRMED"
  else
    echo "$PID $i: REJECTED clean=$rc_clean mut=$rc_mut tests='$tests'"
  fi
done
cd /repo && git worktree remove --force "$WT"
