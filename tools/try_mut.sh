#!/bin/sh
# usage: tools/try_mut.sh <Cxx> <patch.diff> [tier]  -- apply a seeded change to /repo, run the check, undo it
PID=$1; PATCH=$2; TIER=${3:-quick}
cd /repo || exit 9
git diff --quiet || { echo "/repo not clean" >&2; exit 9; }
git apply "$PATCH" || { echo "patch does not apply" >&2; exit 9; }
/verif/bin/check "$PID" --tier "$TIER" > /tmp/try_mut_$PID.log 2>&1
rc=$?
git checkout -- . 
grep -E "^(VIOLATION|KNOWN-FINDING|INCONCLUSIVE)|exit=" /tmp/try_mut_$PID.log | cut -c1-260 | head -8
echo "rc=$rc"
