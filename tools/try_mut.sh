#!/bin/sh
# usage: tools/try_mut.sh <Cxx> <patch.diff> [tier]  -- apply a seeded change to /repo, run the check, undo it
PID=$1; PATCH=$(readlink -f "$2"); TIER=${3:-quick}
cd /repo || exit 9
git diff --quiet || { echo "/repo not clean" >&2; exit 9; }
git apply "$PATCH" || { echo "patch does not apply" >&2; exit 9; }
trap 'cd /repo && git checkout -- .' EXIT INT TERM
timeout ${TRY_TIMEOUT:-900} /verif/bin/check "$PID" --tier "$TIER" > /tmp/try_mut_$PID.log 2>&1
rc=$?
grep -E "^(VIOLATION|KNOWN-FINDING|INCONCLUSIVE)|exit=" /tmp/try_mut_$PID.log | cut -c1-260 | head -6
echo "rc=$rc"
