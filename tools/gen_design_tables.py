#!/usr/bin/env python3
"""Regenerates the generated part of DESIGN.md (between the GENERATED markers) from MANIFEST.json, evidence/*.json,
known_findings.json and seeded/MATRIX.json, so that the numbers quoted there are the ones the machinery produced."""
import json
import os
import re

ROOT = os.path.dirname(os.path.dirname(os.path.abspath(__file__)))
BEGIN, END = "<!-- BEGIN GENERATED (tools/gen_design_tables.py) -->", "<!-- END GENERATED -->"


def load(p, default=None):
    try:
        return json.load(open(os.path.join(ROOT, p)))
    except Exception:
        return default


def main():
    man = load("MANIFEST.json")
    out = []
    out.append("### 6.1 What each check covered on the unchanged tree (from `evidence/<id>.json`, last run in /verif)\n")
    out.append("| id | tier | paths | obligations | solver queries (sat/unsat/unknown) | solver s | wall s | known findings reproduced | exit |")
    out.append("|---|---|---|---|---|---|---|---|---|")
    for c in man["checks"]:
        pid = c["property_id"]
        e = load(f"evidence/{pid}.json")
        if not e:
            out.append(f"| {pid} | – | no evidence file yet | | | | | | |")
            continue
        cv = e["coverage"]
        out.append(f"| {pid} | {e['tier']} | {cv.get('paths')} | {cv.get('obligations')} | {cv.get('queries_sat')}/{cv.get('queries_unsat')}/{cv.get('queries_unknown')} | "
                   f"{cv.get('solver_s')} | {e.get('wall_s')} | {len(cv.get('known_findings_reproduced') or [])} | {cv.get('exit_code')} |")
    kf = load("known_findings.json")["findings"]
    out.append("\n### 6.2 Genuine defects repaired in /repo (`fix:` commits; each has a `revert-…` seed that its check catches)\n")
    for f in kf:
        if f.get("status") == "fixed":
            out.append(f"* `{f.get('commit')}` ({f['property']}) — {f['what'].split(' ', 3)[-1] if f['what'].startswith('fixed:') else f['what']}")
    out.append("\n### 6.3 Genuine defects recorded, not repaired (`known_findings.json`, printed as KNOWN-FINDING, exit 0)\n")
    seen = set()
    for f in kf:
        if f.get("status") != "fixed" and f["id"] not in seen:
            seen.add(f["id"])
            n = sum(1 for g in kf if g["id"] == f["id"])
            why = f.get("why_not_fixed", "")
            out.append(f"* **{f['id']}** ({f['property']}, {n} site entr{'y' if n == 1 else 'ies'}) — {f['what']}" + (f" *Not repaired because:* {why}" if why else ""))
    mx = load("seeded/MATRIX.json")
    if mx:
        out.append(f"\n### 6.4 Seeded changes and which check catches them (`tools/matrix.py`, /repo HEAD `{mx['repo_head']}`, {mx['generated']})\n")
        out.append("Every seed is a change to netqasm that keeps the 171 tests green, written by a sub-agent that saw only the property text (or, for "
                   "`revert-…`, the reversal of one of the repairs above). `caught` = the check exits 1 with a replayed VIOLATION line.\n")
        out.append("| seed | property | tier | verdict | check: exit / violations / wall s | what was changed |")
        out.append("|---|---|---|---|---|---|")
        for r in mx["rows"]:
            meta = load(f"seeded/{r['seed']}/meta.json", {})
            chk = "; ".join(f"{k}: {v['exit']} / {v['violations']} / {v['wall_s']}" for k, v in r.get("checks", {}).items())
            summ = re.sub(r"\s+", " ", meta.get("summary", ""))[:160].replace("|", "\\|")
            out.append(f"| {r['seed']} | {r['property']} | {r.get('tier', '')} | {r['verdict']} | {chk} | {summ} |")
        tot = len(mx["rows"])
        caught = sum(1 for r in mx["rows"] if r["verdict"] == "caught")
        out.append(f"\n{caught} of {tot} seeds caught.")
    tt = load("tier_times.json")
    if tt:
        out.append("\n### 6.5 Wall time of every registered command, run end-to-end on the unchanged tree (`tools/run_all.sh`, 16 cores)\n")
        out.append("| id | quick: wall s / exit | thorough: wall s / exit | thorough summary |")
        out.append("|---|---|---|---|")
        for c in sorted(tt):
            q, t = tt[c].get("quick"), tt[c].get("thorough")
            fmt = lambda x: f"{x['wall_s']} / {x['exit']}" if x else "–"
            summ = re.sub(r"^C\d\d \[thorough\] ", "", (t or {}).get("summary", ""))[:150]
            out.append(f"| {c} | {fmt(q)} | {fmt(t)} | {summ} |")
    text = "\n".join(out) + "\n"
    p = os.path.join(ROOT, "DESIGN.md")
    s = open(p).read()
    if BEGIN in s:
        s = s[:s.index(BEGIN) + len(BEGIN)] + "\n" + text + s[s.index(END):]
    else:
        s += f"\n{BEGIN}\n{text}{END}\n"
    open(p, "w").write(s)
    print("DESIGN.md generated part updated")


if __name__ == "__main__":
    main()
