#!/usr/bin/env python3
"""Regenerates /verif/MANIFEST.json from the table below (kept in one place so it is always valid)."""
import json
import os

ROOT = os.path.dirname(os.path.dirname(os.path.abspath(__file__)))

SYMX = "bounded symbolic execution of the real Python functions on z3-backed proxies (vf/symx.py); every path obligation decided by z3; counterexamples replayed concretely on the unmodified code"

CHECKS = {
    "C01": dict(
        engine="symx+cmodel",
        technique="SMT (z3 QF_BV): symbolic execution of the real encoder/decoder through a bit-vector ctypes model; tables by z3 query",
        text="For every instruction class of every flavour, all register-bank assignments and all in-range operand values (symbolic "
             "bit-vectors), the real bytes(Subroutine)->deserialize round trip is decided by z3 on every path; opcode/mnemonic "
             "uniqueness and lookup tables decided over the real class lists. Bounded: sequences of N<=2 (thorough N<=4). Not a proof: "
             "longer sequences are outside.",
        note="Trusted: z3; vf/cmodel.py (layout read from real ctypes twins, load/store semantics validated against real ctypes on every run); "
             "counterexamples are replayed with the real ctypes in a fresh process.",
        design="3/C01"),
}

CHECKS["C02"] = dict(
    engine="symx+cmodel",
    technique="SMT (z3 QF_BV): symbolic execution of the real encoder/decoder vs. an independent reference encoder, 56-bit vector equalities",
    text="For every instruction class of every flavour and every register-bank assignment, the bytes produced by the real encoder on "
         "symbolic operands equal, bit for bit, the bytes of an independent reference encoder written from the layout sentence and "
         "the pinned wire table; reference-encoded bytes are read back by the real decoder as the intended operands; the header and "
         "re-serialisation after an app-id change are included. Decided by z3 for all operand values; N<=2 (thorough N<=5) commands.",
    note="Trusted: z3; vf/cmodel.py (validated against real ctypes every run); spec/wire_table.json as the published table (transcribed "
         "from the pinned commit, the repository has no machine-readable table); replays use real ctypes.",
    design="3/C02")
CHECKS["C15"] = dict(
    engine="symx+cmodel",
    technique="SMT (z3 QF_BV): symbolic execution of the real message constructors / bytes() / deserialize_* through the ctypes model",
    text="Every host and return message type is round-tripped through the real constructor, bytes() and deserialize function with "
         "every field a free bit-vector of its declared width (declared widths come from the specification side); z3 decides field "
         "equality with the sender's values on every path; returned arrays of length 0..3 (thorough 0..5) with every pattern of "
         "undefined entries, each preceded by another array message of the same length; arrays of 255/256/257 (thorough also 65535..65537) entries; messages "
         "deserialised from a receive buffer (bytearray) that is overwritten afterwards.",
    note="Trusted: z3; vf/cmodel.py incl. its field-descriptor-overrides-method behaviour (validated against real ctypes every run); "
         "replays use real ctypes. Array lengths other than the listed ones are outside.",
    design="3/C15")
CHECKS["C16"] = dict(
    engine="symx+cmodel",
    technique="SMT (z3 QF_BV): symbolic execution of the real encoding entry points with one operand a free 64-bit vector assumed out of range",
    text="For every operand field of every instruction class, the header fields, 13 assembler operand positions, instantiate and four SDK "
         "entry points, the out-of-range operand is a free 64-bit signed vector constrained only to lie outside the field range; z3 "
         "decides on every path that the real code raises. All out-of-range 64-bit values are covered at once, including both "
         "boundaries of every field.",
    note="Trusted: z3; vf/cmodel.py truncating stores (validated against real ctypes every run). Outside: integers beyond +-2^63, "
         "text-level numerals. SDK app id case bounded to the 16 adjacent values (the connection hashes it).",
    design="3/C16")

CHECKS["C04"] = dict(
    engine="symx",
    technique="SMT (z3 LIA/NIA): symbolic execution of the real Executor on integer proxies vs. an independent reference interpreter",
    text="The real Executor.execute_subroutine runs from a symbolic initial state (register/array contents and immediates are z3 "
         "integers; operand aliasing, definedness, array lengths, unit-module occupancy and branch targets are forked exhaustively) "
         "and z3 decides on every path that registers, arrays, shared memory, unit module, fault/no-fault and the faulting line equal "
         "the reference semantics. (a) every core classical instruction from an arbitrary state; (b2) qubit life cycles: 6 qalloc/qfree steps over three virtual IDs in one or two subroutines, with distinct reserved physical addresses as an obligation; (b) all 2-slot programs over 22 forms "
         "with arbitrary jump targets, and two subroutines back to back. Bounded: step bound 12, program length 2 (thorough 3-4).",
    note="Trusted: z3; vf/refsem.py (independent reference, DESIGN appendix B); harness Executor subclass that concretises index-like "
         "values before list indexing. Behaviour the statement does not name (negative index, undefined compare) is assumed away.",
    design="3/C04")

CHECKS["C05"] = dict(
    engine="symx",
    technique="SMT (z3 LIA): symbolic execution of the real SDK->assembler->Executor pipeline vs. direct evaluation of the host program",
    text="Host programs of a small DSL (if_* in context and callback form over Future/RegFuture/int operands, loop, loop_body, foreach, "
         "enumerate, loop_until, add with/without modulus, arrays with initial values, measurement into array entries / fresh futures "
         "/ registers, flush anywhere between top-level statements) are run through the real Builder, assembler and Executor with all "
         "array contents, constants, moduli and measurement outcomes symbolic; after every flush z3 decides on every path that host "
         "handles, controller arrays/registers and the gate/measurement trace equal the direct evaluation. ~1600 programs quick, including three-subroutine programs (a handle created in the first subroutine and used in the third) and subroutines that mix register and array measurements / rotations on two qubits.",
    note="Trusted: z3; vf/sdkdsl.py RefInterp (direct evaluation); PipeConnection bypasses serialisation (int-subclass immediates are "
         "converted to their payload as the wire would). Programs beyond the size/nesting bound and EPR operations are outside.",
    design="3/C05")

CHECKS["C06"] = dict(
    engine="symx",
    technique="SMT (z3 LIA): symbolic execution of compile/instantiate/commit vs flush on the real connection, builder, transpiler and Executor",
    text="The same host program with Template rotation numerators is run through compile()+Subroutine.instantiate+commit_subroutine and, "
         "written with the values, through flush(); template values (0..255), array contents and outcomes are symbolic. z3 decides on "
         "every path equality of the instruction streams sent, controller trace/memory, host values and the connection's bookkeeping "
         "afterwards, incl. a later flush (re-declaration / erasure of arrays). 7 templated blocks x flush placements x operations "
         "queued between compile and commit x generic/NV transpiler.",
    note="Trusted: z3; the direct flush flow is the oracle (its own correctness is C05). PipeConnection/TraceExecutor as in C05.",
    design="3/C06")
CHECKS["C14"] = dict(
    engine="symx",
    technique="symbolic execution of the real Builder/MemoryManager (z3 decides data-dependent builder branches); inductive-step invariant per operation kind + C05 oracle on nested programs",
    text="Inductive step: from a builder with k live registers (k in {0,3,11}; thorough 0..12), one completed operation of each of ~190 "
         "kinds (every DSL construct incl. empty bodies and nesting, every EPR operation kind, generic and NV config) leaves the active "
         "register set unchanged, writes no live register, and a flush empties the measurement/return pools; so sequences of any length "
         "compile. Nested programs are additionally decided against direct evaluation (C05 oracle) for all data. Long seeded sequences "
         "as a cross-check.",
    note="Mostly shape-driven: the solver decides feasibility of data-dependent builder branches and the nested-program equalities. "
         "Trusted: z3, RefInterp. Operations outside the listed kinds are outside.",
    design="3/C14")

CHECKS["C10"] = dict(
    engine="symx",
    technique="SMT (z3 LIA): symbolic execution of the real EPRSocket->Builder->assembler->Executor pipeline with symbolic Bell indices; Pauli-frame reading of the executed trace; symbolic execution of the classical post-processing",
    text="For 8 API variants x generic/NV hardware config x 0..2 other live qubits x 1..2 (thorough 1..4) pairs, the Bell index of every "
         "delivered pair is a z3 integer inside the link-layer response; the executor branches on it (forks) and z3 decides on every path "
         "that pair i's qubit received exactly the Pauli of pair i's Bell state, no other qubit was touched, and nothing is corrected when "
         "the expectation is off. Measure-directly post-processing is executed on symbolic rotation triples, Bell index and outcome "
         "against the commutation table, stand-alone and end to end through recv_measure/create_measure. A link layer that answers in "
         "qlink-interface 1.0 form (its own Bell-state enum, converted by name) is covered for four variants.",
    note="Trusted: z3; Pauli-frame semantics of the trace (exact for the Pauli corrections the SDK emits; any other gate is reported); "
         "responses are delivered in order at the executor's wait points (other arrival orders: C12). `int` of build_epr is stubbed.",
    design="3/C10")

CHECKS["C11"] = dict(
    engine="symx",
    technique="SMT (z3 LIA): symbolic execution of the real EPRSocket API, Builder, assembler and Executor request/response paths with symbolic parameters and response fields",
    text="Request direction: every public create entry point with symbolic time limit (0..2^31-1) and rotation triples (0..31), every "
         "TimeUnit, every pair of named bases and of RandomBasis members; z3 decides on every path that each field of the request that "
         "reaches the network stack equals the call's parameter (defaults where the API has none), that enum-typed fields are enum "
         "members and that request_to_qlink_1_0 succeeds with equal fields. Result direction: responses with symbolic create id, sequence "
         "number, goodness, time, Bell state, outcome, basis; every field of every result handle of pair i equals pair i's response.",
    note="Trusted: z3; RecStack/NetExecutor harness (in-order delivery). Pair counts 1..2 (thorough 1..3). Error responses outside.",
    design="3/C11")

CHECKS["C12"] = dict(
    engine="symx",
    technique="symbolic execution of the real Executor as a coroutine: schedule = explorer choice points (all interleavings inside the bound), payloads = z3 integers, reference FIFO matcher as oracle",
    text="11 scenarios (thorough 15) with 1-3 outstanding create/recv requests of 1-3 pairs (same/different sockets, roles mixed, keep and "
         "measure, busy virtual qubit, sequential reuse, responses in native and qlink-1.0 form). The harness Executor yields after every "
         "instruction and at _do_wait; at every scheduling point the explorer forks over 'advance one instruction' and 'deliver one more "
         "response of kind k' (receive-role responses may precede recv_epr), so every interleaving is a path (4200 quick). On each path "
         "the result arrays, qubit mapping, request queues and pending list are compared with a reference matcher; every completed wait "
         "instruction is checked against its awaited entries.",
    note="Exhaustive over schedules inside the bound (forking); data (create id, goodness, Bell state) symbolic. Trusted: the reference "
         "matcher in vf/chk/c12.py; pending responses are retried before every scheduling step (models the simulators' retry loop).",
    design="3/C12")

CHECKS["C13"] = dict(
    engine="symx",
    technique="exploration of controller histories by explorer choice points on the real Executor + inductive step from every invariant-satisfying state; data as z3 terms",
    text="(a) every history of 4 (thorough 5) operations over 2 (3) applications -- init, stop, qalloc/qfree, classical write and return, "
         "keep response for a free virtual qubit, faulting subroutines included -- with injectivity of the virtual->physical map across "
         "applications, in-use set = mapped set, other applications' registers/arrays/shared memory/unit module unchanged (compared as z3 "
         "terms, written values symbolic), stop releasing everything and re-registration, checked after every operation; (b) the same "
         "obligations for one operation from each of ~330 invariant-satisfying states, which extends (a) to histories of any length; (c) three applications suspended at wait instructions, every order of starting, delivering and resuming; (d) two applications advanced one executor step at a time in every order, through the yields inside qalloc / qfree.",
    note="Mostly exhaustive enumeration by forking (stated); the solver compares symbolic memory contents. Trusted: harness NetExecutor. "
         "Physical ids offered by the link layer are assumed unused (contract).",
    design="3/C13")

CHECKS["C09"] = dict(
    engine="symx",
    technique="exploration of host histories by explorer choice points through the real SDK, assembler, NV transpiler and Executor (shape-driven); outcomes / Bell indices as z3 integers",
    text="Every history of 3 (thorough 4) operations + final flush over {new qubit, gate, cnot, reset, measure in place / destructively, free, "
         "flush, create_keep, recv_keep, the same with a fidelity limit (retry loop, symbolic duration), sequential keep with post routine, EPR "
         "contexts} for qubit budgets 2,3 (thorough 1,2,3,5), plus every history of 6 (thorough 7) operations over {new, measure, gate, cnot, "
         "flush} on the NV configurations, generic hardware, NV hardware config and NV + transpiler, with the host keeping at most budget (NV: budget-1) qubits alive: no emitted "
         "instruction faults, after every flush active_qubits = controller's allocated virtual qubits = the handles the host still holds, "
         "and a freed ID is handed out again; gates look their qubit up like a real back end (a gate on an unallocated virtual qubit is a "
         "fault). Histories that contain free() or sequential/context EPR operations are attributed to two recorded findings, a carbon-carbon "
         "gate with the electron unallocated to a third; all other histories must be clean.",
    note="Shape-driven: exhaustive over histories inside the bound; the solver only keeps data-dependent branches open. Coarse known-finding "
         "attribution (by operation kinds in the history) is stated in DESIGN.md. Trusted: NetExecutor harness, in-order delivery.",
    design="3/C09")

CHECKS["C07"] = dict(
    engine="cyclo+symx",
    technique="SMT (z3 QF_LRA): exact operator semantics in Q(zeta_64) of the instruction list emitted by the real transpiler, 'for all input states' as free real coordinates; z3 LIA for rotation operands",
    text="For X Y Z H K S T (electron / carbon), CNOT and CPHASE in all 6 ordered placements over ids 0,1,2 (3 qubits, arbitrary electron "
         "state, so a borrowed electron must be restored) and MOV in both directions (state transfer onto |0>), the real transpiler's "
         "output is interpreted exactly and z3 decides over all 2^n*32 free coordinates of the input state that it equals the vanilla "
         "operator up to zeta^k. Rotation operand handling (simulation and hardware mode) is executed on symbolic n, d in 0..255. "
         "Published float matrices are cross-checked numerically against the exact operators (translator validation, stated as such).",
    note="Trusted: z3; vf/cyclo.py operator semantics (written from the NetQASM definitions; cross-checked numerically with numpy). "
         "The float matrices themselves (scipy expm) are outside the solver's reach: clause (c) is numeric.",
    design="3/C07")

CHECKS["C20"] = dict(
    engine="cyclo+symx",
    technique="SMT (z3 QF_LRA): the real toolbox->SDK->assembler pipeline on an exact state-vector executor over Q(zeta_64); arbitrary input state as free real coordinates; outcome bits fork in symx",
    text="toffoli_gate (3, thorough 6, qubit-to-id assignments), t_inverse, parity_meas for every Pauli string over I,X,Y,Z of length 1..3 "
         "with and without '-' (quick: all of length 1-2 and the length-3 strings with at most one identity) and set_qubit_state on a dyadic "
         "angle grid incl. negative angles and angles beyond 2 pi run through the real pipeline; the executor keeps the exact linear map "
         "from the free input state; z3 decides per path (both outcomes) equality with the Toffoli permutation / T-dagger / the projector "
         "(I +- P)/2 / the documented state up to zeta^k, and the returned value equals the signed parity.",
    note="Trusted: z3; vf/cyclo.py and vf/statevec.py (operator semantics written from the NetQASM definitions). create_ghz and "
         "non-dyadic set_qubit_state angles are outside (the latter is composed from C19).",
    design="3/C20")

CHECKS["C08"] = dict(
    engine="cyclo+symx",
    technique="SMT (z3 QF_LRA + LIA): original (vanilla semantics) vs really-transpiled (NV semantics) subroutine on an exact state-vector executor from an arbitrary state, symbolic registers and outcomes",
    text="~110 vanilla subroutine templates over electron + 2 carbons (every gate on every qubit, CNOT/CPHASE in every placement, conditionals "
         "and loops across expanded gates, end labels, branches past the end, measurement-steered gates, backward jumps into an expansion, "
         "Q registers re-written or loaded, debug on/off) are executed before and after the real NVSubroutineTranspiler; z3 decides per "
         "path that classical registers/arrays and measurement record are equal, that the final states are equal up to zeta^k for every "
         "input state, that non-gate instructions keep their order and that every controlled rotation is driven by the electron.",
    note="Trusted: z3; vf/cyclo.py / vf/statevec.py semantics. Bounded to the listed templates (thorough adds 120 seeded composites); "
         "rotation operands inside programs are fixed dyadic values (arbitrary n, d: C07 (b)).",
    design="3/C08")

CHECKS["C19"] = dict(
    engine="symx",
    technique="SMT (z3 mixed real/integer linear arithmetic): symbolic execution of the real get_angle_spec_from_float on a real-valued angle and tolerance, loop unrolled until z3 refutes the loop condition",
    text="The real function runs on z3 Reals for the angle (through r = angle mod 2 pi in [0, 2 pi], closed because the float remainder can "
         "round up to 2 pi) and the tolerance; floor/log2/int are stubs with stated contracts; every path (exponent sequence x "
         "simplification steps, partitioned by the first two exponents over the cores) ends with z3 deciding 1<=n<=255, 0<=d<=255 and "
         "|sum n/2^d - r/pi| <= tol. Exhaustive for tol in [1e-4, 0.1] (quick) / [2.5e-5, 0.1] (thorough); below that only slices: single-step "
         "slices at 1e-9 (exhaustive; they also decide that only steps the format cannot hold are dropped) and time-boxed, non-exhaustive "
         "'hunting' slices at 1e-7..1e-6 that need four steps. The builder is checked to emit one rotation per step (symbolic steps), and, for two rotations on one connection whose angles are 2^-40 .. 9e-5 apart, to request the decomposition of each angle exactly and emit each rotation's own steps. Counterexamples are replayed with real "
         "floats on the unstubbed function.",
    note="Trusted: z3; the binary64 model of vf/symreal.py (exact power-of-two scaling, Sterbenz subtraction, floor/log2 contracts with "
         "2^-50 slack). 'Within tolerance' is read as the implementation applies it (to angle/pi). At most 8 loop iterations (checked).",
    design="3/C19")

CHECKS["C17"] = dict(
    engine="crosshair",
    technique="CrossHair 0.0.110 (symbolic execution of Python with z3): generated PEP-316 harnesses, one condition per instruction class; only 'Confirmed over all paths' counts",
    text="For every instruction class of every flavour (read from the real tables) a generated harness makes one numeric leaf at a time "
         "(register index, bank, immediate, integer, address; plus 8 boundary constants for signed fields) symbolic and CrossHair must "
         "confirm over all paths that parse_text_subroutine(str(instr), flavour) == [instr]; the harness process first parses every "
         "mnemonic with the other flavours (a process normally uses several). Because the tokenizer inspects characters CrossHair "
         "realises the numerals: the verdict is exhaustive for the stated value sets (solver-driven enumeration), nothing beyond.",
    note="Trusted: CrossHair's 'Confirmed over all paths'. Quick: 6 curated values per leaf; thorough: 24 consecutive values. "
         "Counterexamples are replayed concretely in-process. Longer numerals are outside.",
    design="3/C17")

CHECKS["C03"] = dict(
    engine="symx",
    technique="SMT (z3 LIA): source program interpreted directly vs. really-assembled Subroutine interpreted by the reference semantics, literals and memory symbolic; structural clause as z3 equalities",
    text="~1000 (program, route) pairs: every register-or-literal variant of 26 classical/array/allocation instruction forms with labels "
         "before / after / consecutive / past the end, seeded 2- and 3-command (thorough: also 4-command) programs with forward and backward jumps, register-pressure "
         "programs, through assemble_subroutine on IR objects and through parse_text_subroutine on printed text with macros, comments and "
         "bracketed arguments. Literal values and initial registers / arrays are z3 integers; z3 decides per path equal termination and "
         "fault reason, equal source-named registers, arrays and returned values, and that the source sequence is preserved.",
    note="Trusted: z3; vf/refsem.py on both sides (source side extended with literal operands and label targets). Programs longer than "
         "the bound, overlapping macro names and token lemmas on arbitrary strings are outside (C17 covers printed text).",
    design="3/C03")

CHECKS["C18"] = dict(
    engine="symx explorer (decision points only) + baton scheduler over the real threads",
    technique="bounded exhaustive exploration of thread schedules of the real ThreadSocket / _SocketHub / BroadcastChannelBySockets code: the schedule "
              "vector is the explorer's decision variables (pre-emption bounded, statement granularity inside the hub); NO SMT query decides this "
              "property -- payloads are strings and the schedule is not an input of any function, so the solver has nothing to decide (stated "
              "limitation of the technique family; see DESIGN.md 3/C18)",
    text="Endpoint scripts run in real threads under a baton; control returns to the scheduler at every hub-method entry, at every statement inside "
         "the hub (sys.settrace) and at every poll sleep / taken lock; each hand-over is a decision point of the same DFS explorer that drives the "
         "other checks, so every schedule inside the pre-emption bound is one deterministic, replayable path. Per schedule: received == sent per "
         "direction and socket id, callback sockets get every message, non-blocking receive reports emptiness, no deadlock / livelock / endpoint error.",
    note="The deciding step is enumeration of schedules inside the stated bound, not a solver verdict: level 'other' for that reason. Trusted: the "
         "scheduler's parking rule for pollers (a poll iteration that saw an unchanged hub is repeated only after the hub changed), the virtual clock.",
    design="3/C18")

NOT_YET = "check not built yet in this revision (work in progress; see DESIGN.md section 3 for the planned solver-based check)"
NOT_APPLICABLE = {}


def main():
    props = [json.loads(l)["id"] for l in open(os.path.join(ROOT, "properties.jsonl"))]
    checks = []
    for pid in props:
        if pid not in CHECKS:
            continue
        c = CHECKS[pid]
        checks.append({
            "property_id": pid,
            "quick_cmd": f"bin/check {pid} --tier quick",
            "thorough_cmd": f"bin/check {pid} --tier thorough",
            "evidence_file": f"/verif/evidence/{pid}.json",
            "replay_cmd_template": f"bin/check {pid} --replay {{path}}",
            "engine": c["engine"],
            "level_claimed": {"category": "other", "text": c["text"], "design_ref": c["design"]},
            "level_note": c["note"],
            "technique": c["technique"],
        })
    na = []
    for pid in props:
        if pid in CHECKS:
            continue
        na.append({"property_id": pid, "reason": NOT_APPLICABLE.get(pid, NOT_YET)})
    man = {
        "version": 1,
        "setup_cmd": "./setup.sh",
        "hooks": {
            "guard": "NETQASM_VERIF",
            "enable": "bin/check exports NETQASM_VERIF=1; no hook code exists in /repo: the checks reach the code through its documented "
                      "extension points (Executor / BaseNetQASMConnection / BaseNetworkStack subclasses), module-attribute substitution "
                      "inside the check process and a ctypes import swap",
            "baseline_off_cmd": "cd /repo && /venv/bin/python -m pytest -ra -q -p no:cacheprovider --timeout=900 --continue-on-collection-errors",
            "source_commits": [],
            "add_only": True,
        },
        "engines": [
            {"name": "symx", "path": "vf/symx.py", "kind_free_text": "z3-backed proxy execution (int subclass carrying z3 terms, fork at __bool__, DFS re-execution) of the real netqasm code",
             "serves_properties": [p for p in props if p in CHECKS and "symx" in CHECKS[p]["engine"]]},
            {"name": "cmodel", "path": "vf/cmodel.py", "kind_free_text": "bit-vector model of ctypes (layout from real ctypes twins, tagged bytes) swapped in at import of the netqasm codec modules",
             "serves_properties": [p for p in props if p in CHECKS and "cmodel" in CHECKS[p]["engine"]]},
            {"name": "cyclo", "path": "vf/cyclo.py", "kind_free_text": "exact quantum amplitudes in Q(zeta_64) as vectors of z3 Reals; gates are Q-linear so 'for all states' is a QF_LRA query",
             "serves_properties": [p for p in props if p in CHECKS and "cyclo" in CHECKS[p]["engine"]]},
            {"name": "crosshair", "path": "vf/chplugin.py", "kind_free_text": "CrossHair 0.0.110 (symbolic str/int execution with z3) with a formatting plugin",
             "serves_properties": [p for p in props if p in CHECKS and "crosshair" in CHECKS[p]["engine"]]},
        ],
        "checks": checks,
        "not_applicable": na,
        "notes": "All checks: exit 0 = held on everything explored (KNOWN-FINDING lines for recorded defects listed in known_findings.json), "
                 "exit 1 + VIOLATION line = reproduced counterexample, exit 2 = inconclusive (solver unknown / aborted path / non-reproducing "
                 "counterexample; never reported as pass). Level 'other' everywhere: bounded solver verdicts, bounds stated in evidence.",
    }
    with open(os.path.join(ROOT, "MANIFEST.json"), "w") as f:
        json.dump(man, f, indent=1)
    print("MANIFEST.json:", len(checks), "checks,", len(na), "not applicable")


if __name__ == "__main__":
    main()
